#!/usr/bin/env python3
"""Generate /verif/MANIFEST.json from the table below (kept in one place so it stays valid)."""
import json
import os

ROOT = os.path.dirname(os.path.dirname(os.path.abspath(__file__)))

COMMON_NOTE = (
    "Trusted: pyvc (the ast->SMT VC generator in /verif/pyvc) and its reading of Python semantics (static dispatch, no monkey-patching, "
    "annotated types, single thread); the Python str built-ins as defined in the SMT-LIB string theory (pyvc/smt.py STR_SIG_S; every "
    "uninterpreted-string axiom used in the proofs is itself proved against those definitions on each `./check lemmas` run); the solvers "
    "(z3 4.8.12, z3 5.1.0, cvc5 1.0.3/1.4.0); pydantic (validators run at construction, list fields copied, model_copy(deep=True) is a fresh deep copy). "
    "Items that appear in the evidence with a 'bounded' entry and no 'proved' status are decided only by the bounded stand-in "
    "(small-scope native evaluation of the same sidecar contracts on the real code) and are never counted in obligations/discharged. "
)

P = {
    "C01": ("proof", "Contracts on parse_uri/compress/is_uri (+format_curie) are proved for all converters satisfying the representation invariant WF and all strings from the current source; "
            "order independence is lemma C01.order_independent over those contracts (two converters with the same set-level view give the same answer). "
            "The link 'any construction/insertion order yields the same view' is carried by the contracts of __init__/add_record (C04/C05 cone), which are proved as well (see the item list).",
            "assumed contract of pytrie.StringTrie.longest_prefix_item (longest stored key that is a prefix; KeyError iff none)."),
    "C02": ("proof", "Every function of the CURIE side (_split, parse_curie, standardize_prefix, get_record, expand*, expand_pair_all loop with invariant) is proved against a contract taken from the statement, incl. the empty prefix, multi-character delimiters, no-result cases.", ""),
    "C03": ("proof", "Five lemmas over the proved contracts of compress/expand/expand_all/standardize_uri/standardize_curie: lossless, canonical fixed point, expand output compressible, inverse bijection on prefix-free maps. Hypothesis: every CURIE prefix p satisfies first_occ(p, delimiter) (for one-character delimiters: p does not contain it).", ""),
    "C04": ("other", "Contracts for __init__ (raises iff clash, URI clashes first), the duplicate detectors, the four index builders, bimap/reverse_bimap (inverse-bijection lemma), the two field validators of Record (the constructor model takes its rejection condition from their proved contracts) and the in-memory loaders are proved; pydantic wiring and the loaders over files/rdflib are bounded lemmas.",
            "pydantic runs the validators at construction in field order and stores the returned value; sorted() is a permutation ordered by key."),
    "C05": ("other", "Contracts for _eq/_in (proved), _match_record, _merge, _index, add_record, add_prefix incl. exceptional frame (rejected call changes nothing) and 'answers as a fresh converter'; all proved, incl. the heap-mutating ones; histories follow from the representation invariant WF (pre- and postcondition of add_record/add_prefix), additionally exercised by a bounded interleaved history lemma.", ""),
    "C06": ("proof", "standardize_prefix/standardize_curie/standardize_uri proved against statement-level contracts; idempotence and meaning preservation are three lemmas over those contracts.", ""),
    "C07": ("proof", "parse, is_uri, is_curie, compress_or_standardize, expand_or_standardize, format_curie, *_strict proved; the agreement statements are five lemmas over the contracts (URI precedence included).", ""),
    "C08": ("proof", "All 14 functions proved with symbolic strict/passthrough flags: value/None/raise schema and the exceptional-exit obligations (every raise is admitted by a raises-clause whose condition holds; every partial operation has a discharged safety obligation).", ""),
    "C09": ("other", "Contracts for chain and get_subconverter (union, grouping, priority, case-insensitive separation, restriction, delimiter) — get_subconverter, _match_record, _merge, _index, add_record are proved; chain is partially discharged (open obligations listed in the evidence) and decided by the bounded stand-in.", ""),
    "C10": ("other", "Frame conditions (input converter state unchanged, result shares no record object) are postconditions of the six derivations; discover's purity wrt. its converter; two bounded history lemmas for 'later modification does not leak'.", ""),
    "C11": ("other", "Contracts for _order_curie_remapping and remap_curie_prefixes taken from the statement (record count, URI side untouched, nothing forgotten, applicable pairs rename, clashes skipped).", ""),
    "C12": ("other", "Contracts for remap_uri_prefixes, rewire and the two key-selection helpers; idempotence/unknown-prefix lemmas bounded.", ""),
    "C13": ("other", "Level capped at 'other' (rdflib, files, dictionary-valued JSON-LD terms are bounded only). Proved for every in-memory input: from_prefix_map, from_priority_prefix_map, from_reverse_prefix_map, from_extended_prefix_map (Record objects), from_jsonld (string-valued terms), upgrade_prefix_map, and lemma 'upgrade_prefix_map output is always accepted by a strict converter and denotes the map'; the remaining clauses (file/URL/rdflib, dict-valued terms, Record(**dict)) are bounded lemmas over the real constructors.", "json.load/dump inverse; rdflib namespaces(); _prepare(obj) returns obj for in-memory objects (final else-branch checked syntactically)."),
    "C14": ("other", "Level capped at 'other'. Proved: _get_expanded_term/_get_jsonld_context (plain form) and the in-memory round trip lemma through from_jsonld; _record_to_dict and the round trips through json/csv/rdflib/files are bounded lemmas over the real writers/loaders.", "json, csv, rdflib Turtle+SPARQL, file system."),
    "C15": ("other", "Level capped at 'other': the pydantic reference classes are decided by bounded lemmas only. _split / ReferenceTuple.from_curie proved (print/parse inverse lemma C15.print_parse proved); pydantic classes (eq/hash/lt/frozen/context validation/JSON) and the triples TSV are bounded lemmas.", "pydantic model machinery; csv."),
    "C16": ("other", "Element-wise equality with the scalar calls and byte-level atomicity on failure are lemmas over the real pd_*/file_* methods (bounded: pandas/csv/files are third-party).", "pandas Series.map; csv; file system."),
    "C18": ("other", "handle_header/_handle_part against an RFC 7231 reading of the statement, _expand_pair_all against 'valid members of expand_all(compress(u))', triples dispatch and an end-to-end Flask/SPARQL lemma (bounded). FastAPI path is not exercised offline by the baseline either.", "rdflib SPARQL engine and _is_valid_uri; Flask; custom join-reordering in rdflib_custom.py is NOT covered except through the end-to-end bounded lemma."),
    "C19": ("other", "Contracts for _get_uri_prefix_to_luids and discover stated over membership in the URI collection (order/repetition independence is then immediate); valid strict result, naming, cutoff, round trip; known finding D10 (GitHub issue URIs skipped).", "str.isalnum, str.rsplit."),
    "C20": ("other", "is_w3c_prefix / _is_w3c_luid / is_w3c_curie against the grammar of the statement; proved for all strings (no length bound) by the regular-language layer: the function body and the specification are folded into one regular language each and the emptiness of their symmetric difference is decided by z3 5.1.0.", "Python re implements the translated regular language; the whitespace class is enumerated from the running interpreter."),
}

SECTION = {k: "§4 " + k for k in P}


def dynamic(pid):
    """Category and a summary taken from the evidence file the check last wrote (so that MANIFEST and evidence agree)."""
    path = os.path.join(ROOT, "evidence", pid + ".json")
    if not os.path.exists(path):
        return None, ""
    ev = json.load(open(path))
    cov = ev["coverage"]
    items = cov.get("functions_under_contract", [])
    proved = [i["name"] for i in items if i.get("status") == "proved"]
    partial = [i["name"] for i in items if str(i.get("status", "")).startswith("partially")]
    rest = [i["name"] for i in items if i["name"] not in proved and i["name"] not in partial]
    txt = (f" Last run: {cov['obligations']} obligations generated, {cov['discharged']} discharged; fully proved items ({len(proved)}): "
           + ", ".join(proved) + ".")
    if partial:
        txt += " Partially proved (open obligations listed in the evidence; bounded stand-in decides): " + ", ".join(partial) + "."
    if rest:
        txt += " Decided by the bounded stand-in only (not proof): " + ", ".join(rest) + "."
    return ev["level"], txt


def main():
    checks = []
    for pid in sorted(P):
        cat, text, extra = P[pid]
        dcat, dtxt = dynamic(pid)
        if dcat is not None:
            cat = dcat
            text = text + dtxt
        checks.append({
            "property_id": pid,
            "quick_cmd": f"./check {pid} --tier quick",
            "thorough_cmd": f"./check {pid} --tier thorough",
            "evidence_file": f"/verif/evidence/{pid}.json",
            "replay_cmd_template": "./check --replay {path}",
            "engine": "pyvc",
            "level_claimed": {"category": cat, "text": text, "design_ref": SECTION[pid]},
            "level_note": COMMON_NOTE + (("Additionally assumed: " + extra) if extra else ""),
            "technique": ("contract-based deductive verification: sidecar pre/postconditions + loop invariants on the real functions, VCs generated from the /repo AST on every run, discharged by z3/cvc5; lemmas over the contracts"
                          if cat == "proof" else
                          "sidecar contracts on the real functions; VC generation + SMT where the engine reaches the function, bounded native contract evaluation (labelled, not proof) elsewhere"),
        })
    m = {
        "version": 1,
        "setup_cmd": "cd /verif && /venv/bin/python -c 'import curies, ast, pydantic' && z3 --version && z3-new --version && (cvc5 --version | head -1) && python3-vt -c 'import cvc5'",
        "hooks": {
            "guard": "none",
            "enable": "no hooks: contracts, invariants and lemmas are sidecar files under /verif/contracts; /repo is read with ast and imported unmodified on every run",
            "baseline_off_cmd": "cd /repo && /venv/bin/python -m pytest -ra -q -p no:cacheprovider --timeout=900 --continue-on-collection-errors",
            "source_commits": [],
            "add_only": True,
        },
        "engines": [{
            "name": "pyvc",
            "path": "/verif/pyvc",
            "serves_properties": sorted(P),
            "kind_free_text": "ast -> SMT-LIB verification-condition generator for a Python subset (path-splitting symbolic execution, contracts at call sites, loop invariants, explicit heap), solver portfolio z3 4.8.12 / z3 5.1.0 / cvc5; native evaluation of the same contracts for replay and bounded stand-ins",
        }],
        "checks": checks,
        "not_applicable": [{
            "property_id": "C17",
            "reason": "the decomposition of the request path into (prefix, identifier) is decided by Werkzeug's and Starlette's route matchers applied to a route template; the only code in /repo is a format string and a three-line handler, so no contract on /repo code can express or decide the property without modelling third-party routers (which would be proving a model).",
        }],
        "notes": "`./check selftest` (false lemmas must be unprovable) and `./check lemmas` (Layer-U string axioms proved in the native string theory) are soundness checks of the machinery itself; `./check rebaseline` records function-source hashes after a fix: commit. Genuine defects repaired in /repo by fix: commits are listed in known_findings.json (status fixed).",
    }
    json.dump(m, open(os.path.join(ROOT, "MANIFEST.json"), "w"), indent=1)
    print("MANIFEST.json written:", len(checks), "checks")


if __name__ == "__main__":
    main()
