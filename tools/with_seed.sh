#!/bin/sh
# usage: with_seed.sh <seed-dir-name> <command...>   runs command with VERIF_REPO pointing at a scratch worktree with the patch applied
seed=$1; shift
wt=/tmp/mut-$seed-$$
git -C /repo worktree add -q --detach $wt HEAD || exit 9
git -C $wt apply /verif/seeded/$seed/patch.diff || { git -C /repo worktree remove --force $wt; exit 9; }
VERIF_REPO=$wt VERIF_EVIDENCE_DIR=/tmp/mut-evidence-$$ "$@"
rc=$?
git -C /repo worktree remove --force $wt
rm -rf /tmp/mut-evidence-$$
exit $rc
