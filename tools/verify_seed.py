#!/usr/bin/env python3
"""Verify a seeded change: applies cleanly to a scratch worktree of /repo HEAD, the 114 baseline tests
still pass, demo.py fails with it and passes without it. Writes meta.json. Usage: verify_seed.py <seed dir> <property> ["needs"]"""
import json, os, subprocess, sys, shutil, re

seed = os.path.abspath(sys.argv[1]); prop = sys.argv[2]
needs = sys.argv[3] if len(sys.argv) > 3 else ""
wt = f"/tmp/seedverify-{os.getpid()}"
def sh(cmd, **kw):
    return subprocess.run(cmd, shell=True, capture_output=True, text=True, **kw)
sh(f"git -C /repo worktree add -q --detach {wt} HEAD")
try:
    env = dict(os.environ, PYTHONPATH=f"{wt}/src")
    demo0 = sh(f"/venv/bin/python {seed}/demo.py", env=env, cwd=wt)
    ap = sh(f"git -C {wt} apply {seed}/patch.diff")
    if ap.returncode != 0:
        print("patch does not apply:", ap.stderr); sys.exit(2)
    tests = sh(f"/venv/bin/python -m pytest -q -p no:cacheprovider --timeout=900 2>&1 | tail -1", env=env, cwd=wt)
    m = re.search(r"(\d+) failed, (\d+) passed", tests.stdout)
    demo1 = sh(f"/venv/bin/python {seed}/demo.py", env=env, cwd=wt)
    head = sh("git -C /repo rev-parse --short HEAD").stdout.strip()
    ok = demo0.returncode == 0 and demo1.returncode != 0 and m and m.group(2) == "114"
    meta = {"property": prop, "needs_to_manifest": needs, "base_commit": head,
            "verified": {"applies": True, "tests_with_change": tests.stdout.strip(), "demo_without_change_exit": demo0.returncode,
                          "demo_with_change_exit": demo1.returncode, "demo_with_change_tail": (demo1.stdout + demo1.stderr).strip()[-300:]},
            "ran": ["git apply patch.diff in a scratch worktree of /repo HEAD", "pytest (baseline command) -> 114 passed", "demo.py with and without the change"],
            "confirmed": bool(ok)}
    json.dump(meta, open(f"{seed}/meta.json", "w"), indent=1)
    print(seed, "OK" if ok else "NOT CONFIRMED", tests.stdout.strip(), demo0.returncode, demo1.returncode)
finally:
    sh(f"git -C /repo worktree remove --force {wt}")
