#!/bin/sh
# Re-run every registered quick check the way the harness does (fresh evidence), then regenerate MANIFEST.json so that
# the claimed level of each check equals the level its evidence reports. Run before committing.
cd /verif
export VERIF_SEED=1 VERIF_TIER=quick
rc=0
for p in C01 C02 C03 C04 C05 C06 C07 C08 C09 C10 C11 C12 C13 C14 C15 C16 C18 C19 C20; do
  rm -f evidence/$p.json
  out=$(./check $p --tier quick 2>&1); e=$?
  echo "$out" | grep -E "^(C[0-9]+:|VIOLATION|PROBLEM|KNOWN-FINDING)" | cut -c1-200
  [ $e -ne 0 ] && { echo "!! $p exit=$e"; rc=1; }
done
python3 tools/gen_manifest.py
python3-vt - <<'PY'
import json, jsonschema, glob
jsonschema.validate(json.load(open('/verif/MANIFEST.json')), json.load(open('/root/.vp/MANIFEST.schema.json')))
es=json.load(open('/root/.vp/EVIDENCE.schema.json'))
m={c['property_id']:c for c in json.load(open('/verif/MANIFEST.json'))['checks']}
for f in sorted(glob.glob('/verif/evidence/C*.json')):
    e=json.load(open(f)); jsonschema.validate(e, es)
    assert m[e['property_id']]['level_claimed']['category']==e['level'], f
print("manifest + evidence valid and consistent")
PY
exit $rc
