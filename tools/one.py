#!/usr/bin/env python3
"""Developer helper: prove one contract or lemma and list the open obligations.  usage: tools/one.py contract|lemma NAME [tier]"""
import os
import sys
import time

sys.path.insert(0, os.path.dirname(os.path.dirname(os.path.abspath(__file__))))
from pyvc import loader, prove  # noqa: E402

loader.load()
kind, name = sys.argv[1], sys.argv[2]
tier = sys.argv[3] if len(sys.argv) > 3 else "quick"
t0 = time.time()
try:
    r = prove.prove_item(kind, name, tier, 0)
except prove.Demoted as e:
    print("DEMOTED:", e)
    sys.exit(2)
print(f"{name}: {r.n_discharged}/{r.n_obligations} in {time.time() - t0:.1f}s backends={r.by_backend}")
for f in r.failed:
    print("  OPEN", f if isinstance(f, str) else getattr(f, "label", f))
