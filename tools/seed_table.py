#!/usr/bin/env python3
"""Markdown table from a tools/seed_matrix.sh log: which check catches which seeded change, and how."""
import json, os, re, sys
ROOT = os.path.dirname(os.path.dirname(os.path.abspath(__file__)))
log = open(sys.argv[1]).read().split("\n")
rows, cur = [], None
for ln in log:
    m = re.match(r"== (\S+) prop=(\S+) exit=(\d+) (\d+) violations; (\d+) demoted", ln)
    if m:
        cur = {"seed": m.group(1), "prop": m.group(2), "exit": m.group(3), "items": [], "noinput": False, "problems": 0}
        rows.append(cur)
    elif cur and ln.startswith("VIOLATION"):
        r = re.search(r"replay=replays/\w+/(.+?)-[0-9a-f]{10}\.json", ln)
        if r and r.group(1) not in cur["items"]:
            cur["items"].append(r.group(1))
        if "no-failing-input-found" in ln:
            cur["noinput"] = True
    elif cur and ln.startswith("PROBLEM"):
        cur["problems"] += 1
print("| change | property | what it does (from notes.md) | check exit | reported at (contract / lemma) | failing input replayed |")
print("|---|---|---|---|---|---|")
for r in rows:
    notes = ""
    p = os.path.join(ROOT, "seeded", r["seed"], "notes.md")
    if os.path.exists(p):
        txt = [l.strip("# *-").strip() for l in open(p).read().split("\n") if l.strip()]
        notes = (txt[0] if txt else "")[:110].replace("|", "/")
    else:
        mp = os.path.join(ROOT, "seeded", r["seed"], "meta.json")
        if os.path.exists(mp):
            notes = str(json.load(open(mp)).get("needs_to_manifest", ""))[:110].replace("|", "/").replace("\n", " ")
    print(f"| {r['seed']} | {r['prop']} | {notes} | {r['exit']} | {', '.join(r['items'][:3]).replace('_', '.')} | {'no (obligation only)' if r['noinput'] and not r['items'] else 'yes'} |")
