#!/bin/sh
# run each seeded change against the check of its property (in scratch worktrees; /repo untouched)
# usage: seed_matrix.sh [seed-name ...]
cd /verif
seeds="$@"; [ -z "$seeds" ] && seeds=$(ls seeded)
for s in $seeds; do
  p=$(echo $s | cut -d- -f1)
  out=$(tools/with_seed.sh $s ./check $p 2>&1); rc=$?
  echo "== $s prop=$p exit=$rc $(echo "$out" | grep -c '^VIOLATION') violations; $(echo "$out" | grep -c DEMOTED) demoted"
  echo "$out" | grep -E "^(VIOLATION|PROBLEM)" | head -4 | cut -c1-220
done
