#!/usr/bin/env python3
"""Print the per-property status table (markdown) from the evidence files of the last run."""
import glob
import json
import os

ROOT = os.path.dirname(os.path.dirname(os.path.abspath(__file__)))
print("| id | level | items | proved | partial | bounded only | obligations | discharged | wall s |")
print("|---|---|---|---|---|---|---|---|---|")
for f in sorted(glob.glob(os.path.join(ROOT, "evidence", "C*.json"))):
    e = json.load(open(f))
    cov = e["coverage"]
    items = cov.get("functions_under_contract", [])
    proved = [i for i in items if i.get("status") == "proved"]
    partial = [i for i in items if str(i.get("status", "")).startswith("partially")]
    rest = [i for i in items if i not in proved and i not in partial]
    print(f"| {e['property_id']} | {e['level']} | {len(items)} | {len(proved)} | {len(partial)} | {len(rest)} | {cov['obligations']} | {cov['discharged']} | {e['wall_s']} |")
print()
for f in sorted(glob.glob(os.path.join(ROOT, "evidence", "C*.json"))):
    e = json.load(open(f))
    items = e["coverage"].get("functions_under_contract", [])
    rest = [i["name"] + (" (declared bounded)" if i.get("bounded_only") else (" [partial]" if str(i.get("status", "")).startswith("partially") else ""))
            for i in items if i.get("status") != "proved"]
    if rest:
        print(f"* {e['property_id']} not fully proved: " + ", ".join(rest))
