"""Code-mode execution (path splitting) and the per-function verification driver."""
from __future__ import annotations

import ast
import re

from . import smt
from .smt import T, TRUE, FALSE, And, Or, Not, Implies, Eq, Ite, Int, Add, Sub, Lt, Le, Select, Store, ForAll, Exists, app
from .symex import (Engine, Unsupported, State, Outcome, V, VStr, VBool, VInt, VNone, VOpt, VTuple, VList, VSet, VDict,
                    VRef, VExc, VOpaque, VKwargs, veq, vis, truthy, vite, ty_of, parse_ty, FIELDS, REFTUPLE, REF_SORT)

SKIP_CALL_PREFIXES = ("logger.", "warnings.warn", "logging.")
MAX_PATHS = 4000


class Executor(Engine):
    # ------------------------------------------------------------------ helpers
    def where(self, node):
        return f"{self.cur_func}:{getattr(node, 'lineno', '?')}"

    def pure_eval(self, node, st, catching=()):
        """Evaluate an expression without contracted calls in code mode.

        Returns list of (state, V | Outcome(raise)). Partial operations become safety obligations,
        or path splits when an enclosing handler catches the exception.
        """
        self.spec_sides = []
        try:
            v = self.ev(node, st.env, st)
            sides = self.spec_sides
        finally:
            self.spec_sides = None
        outs = []
        cur = st
        for cond, exc in sides:
            if smt.is_true(cond):
                continue
            if any(self.repo.subclass(exc, h) for h in catching):
                bad = cur.assume(Not(cond))
                outs.append((bad, Outcome("raise", exc=exc)))
                cur = cur.assume(cond)
            else:
                self.ctx.oblige(f"{self.where(node)}:safety:{exc}:{ast.unparse(node)[:50]}", "safety", cur.pc, cond, self.where(node))
                cur = cur.assume(cond)
        outs.append((cur, v))
        return outs

    def has_contracted_call(self, node):
        for sub in ast.walk(node):
            if isinstance(sub, ast.Call) and self.resolve_call(sub, None) is not None:
                return True
        return False

    def resolve_call(self, call, st):
        """Return a qualname of a contract (or 'lib.*' / 'ctor.*') if this call is to a function
        handled through a contract; None if it is a pure builtin handled in spec mode."""
        fn = call.func
        if isinstance(fn, ast.Name):
            n = fn.id
            q = f"{self.module}.{n}"
            if q in self.contracts:
                return q
            if f"api.{n}" in self.contracts and n not in ("ReferenceTuple",):
                return f"api.{n}"
            if str(getattr(self, "cur_func", "")).startswith("lemma:"):
                # lemmas name module-level functions of any module of the package (sidecars import them by name)
                cands = [k for k in self.contracts if "#" not in k and k.split(".")[-1] == n
                         and k in self.repo.funcs and self.repo.funcs[k][2] is None]
                if len(cands) == 1:
                    return cands[0]
            if n in ("Converter", "Record"):
                return f"ctor.{n}"
            if n == "cls" and self.cur_class in ("Converter", "Record"):
                return f"ctor.{self.cur_class}"
            if n == "_prepare":
                return "lib._prepare"
            if n == "_get_field_validator_values":
                return "lib._get_field_validator_values"
            if n == "sorted":
                return "lib.sorted"
            if n == "partial":
                return "lib.partial"
            if n == "StringTrie":
                return "lib.StringTrie"
            return None
        if isinstance(fn, ast.Attribute):
            m = fn.attr
            if m == "longest_prefix_item" and isinstance(fn.value, ast.Attribute) and fn.value.attr == "trie":
                return "lib.StringTrie.longest_prefix_item"
            if isinstance(fn.value, ast.Name) and ("api", fn.value.id) in self.repo.classes and f"api.{fn.value.id}.{m}" in self.contracts \
                    and (st is None or fn.value.id not in st.env):
                return f"api.{fn.value.id}.{m}"      # call through the class: classmethod / staticmethod
            # method on a converter / record: decided by the receiver's class when known
            if f"mapping_service.api.MappingServiceGraph.{m}" in self.contracts:
                return f"mapping_service.api.MappingServiceGraph.{m}"
            for cls in ("Converter", "Record"):
                q = f"api.{cls}.{m}"
                if q in self.contracts:
                    if st is None:
                        # syntactic pre-check: receiver is a name or attribute chain
                        return q
                    return q
            if m in ("model_copy",):
                return "lib.model_copy"
            return None
        return None

    # ------------------------------------------------------------------ expression evaluation (code mode)
    def cev(self, node, st, catching=()):
        """Code-mode evaluation: list of (state, V | Outcome(raise))."""
        if isinstance(node, ast.ListComp):
            node = self.static_isinstance(node, st)
        if isinstance(node, ast.DictComp) and self.is_sorted_values_dictcomp(node):
            return self.sorted_values_dictcomp(node, st, catching)
        if isinstance(node, ast.ListComp) and self.is_copy_comprehension(node):
            return self.copy_comprehension(node, st, catching)
        if isinstance(node, ast.ListComp) and self.is_ctor_comprehension(node):
            return self.ctor_comprehension(node, st, catching)
        if not self.has_contracted_call(node):
            return self.pure_eval(node, st, catching)
        if isinstance(node, ast.Call) and self.resolve_call(node, st) is not None:
            return self.do_call(node, st, catching)
        # composite expression containing contracted calls
        if isinstance(node, ast.BoolOp):
            return self.cev_boolop(node, st, catching)
        if isinstance(node, ast.IfExp):
            outs = []
            for s1, c in self.cev(node.test, st, catching):
                if isinstance(c, Outcome):
                    outs.append((s1, c))
                    continue
                t = truthy(self.ctx, c)
                outs += self.cev(node.body, s1.assume(t), catching)
                outs += self.cev(node.orelse, s1.assume(Not(t)), catching)
            return outs
        # hoist contracted calls that are unconditionally evaluated (left to right)
        return self.cev_hoist(node, st, catching)

    def is_copy_comprehension(self, node):
        """[x.model_copy(deep=True) for x in <list> if <pure filter>]"""
        if len(node.generators) != 1 or not isinstance(node.generators[0].target, ast.Name):
            return False
        e_ = node.elt
        return (isinstance(e_, ast.Call) and isinstance(e_.func, ast.Attribute) and e_.func.attr == "model_copy"
                and isinstance(e_.func.value, ast.Name) and e_.func.value.id == node.generators[0].target.id
                and any(kw.arg == "deep" and isinstance(kw.value, ast.Constant) and kw.value.value is True for kw in e_.keywords)
                and not e_.args and not any(self.has_contracted_call(c_) for c_ in node.generators[0].ifs)
                and not self.has_contracted_call(node.generators[0].iter))

    def copy_comprehension(self, node, st, catching):
        """A list of fresh deep copies of the passing source records, in source order: explicit index functions
        src (position -> source index) and pos (passing source index -> position), mutually inverse and monotone."""
        c = self.ctx
        g = node.generators[0]
        c.trusted.add("pydantic BaseModel.model_copy(deep=True) returns a fresh object with equal field values")
        outs = []
        for s0, xs in self.pure_eval(g.iter, st, catching):
            if isinstance(xs, Outcome):
                outs.append((s0, xs))
                continue
            if isinstance(xs, VOpt):
                xs = xs.val
            if not isinstance(xs, VList) or xs.ety != "Record":
                raise Unsupported("copy comprehension over " + type(xs).__name__)

            def passes(i, s0=s0, xs=xs):
                env2 = dict(s0.env)
                env2[g.target.id] = xs.at(i)
                self.in_spec += 1
                try:
                    return And(*[truthy(c, self.ev(cn, env2, s0)) for cn in g.ifs])
                finally:
                    self.in_spec -= 1
            L = c.fresh("copies", ("list", "Record"))
            src = c.fun("src", ["Int"], "Int")
            pos = c.fun("pos", ["Int"], "Int")
            S = lambda t: app(src, t, sort="Int")
            P_ = lambda t: app(pos, t, sort="Int")
            k, k2, i = c.bvar("k", "Int"), c.bvar("k2", "Int"), c.bvar("i", "Int")
            rngL = lambda t: And(Le(Int(0), t), Lt(t, L.n))
            rngX = lambda t: And(Le(Int(0), t), Lt(t, xs.n))
            # new heap: fresh arrays for the Record fields, unchanged on everything allocated before
            s1 = s0.copy()
            a0 = s0.alloc_arr(c, "Record")
            a1 = c.const("A_Record", a0.sort)
            s1.heap[("alloc", "Record")] = a1
            x = c.bvar("x", "Rec")
            facts = [ForAll([x], Implies(Select(a0, x), Select(a1, x)))]
            for f in FIELDS["Record"]:
                h0 = s0.harr(c, "Record", f)
                h1 = c.const(f"H_Record_{f}", h0.sort)
                s1.heap[("Record", f)] = h1
                facts.append(ForAll([x], Implies(Select(a0, x), Eq(Select(h1, x), Select(h0, x)))))
                # each copy has the field values of its source
                facts.append(ForAll([k], Implies(rngL(k), Eq(Select(h1, L.at(k).t), Select(h0, xs.at(S(k)).t))), pats=[[L.at(k).t]]))
            facts.append(ForAll([k], Implies(rngL(k), And(rngX(S(k)), passes(S(k)), Eq(P_(S(k)), k),
                                                       Not(Select(a0, L.at(k).t)), Select(a1, L.at(k).t))), pats=[[L.at(k).t]]))
            facts.append(ForAll([i], Implies(And(rngX(i), passes(i)), And(rngL(P_(i)), Eq(S(P_(i)), i))), pats=[[xs.at(i).t]]))
            facts.append(ForAll([k, k2], Implies(And(rngL(k), rngL(k2), Lt(k, k2)), And(Lt(S(k), S(k2)), Not(Eq(L.at(k).t, L.at(k2).t))))))
            for f_ in facts:
                s1 = s1.assume(f_)
            outs.append((s1, L))
        return outs

    VALIDATORS = (("api.Record.prefix_not_in_synonyms", "prefix_synonyms"), ("api.Record.uri_prefix_not_in_synonyms", "uri_prefix_synonyms"))

    def validators_reject(self, vals, st):
        """Condition under which Record(**vals) is rejected: the raises-conditions of the CONTRACTS of Record's two field
        validators (each proved against the validator's source), wired to the fields named in their decorators."""
        c = self.ctx
        bad = []
        # the class must not have grown other hooks that run at construction (a further validator, __init__, model_post_init ...)
        cnode = self.repo.classes.get(("api", "Record"))
        if cnode is None:
            raise Unsupported("class Record not found")
        expected = {q.split(".")[-1] for q, _ in self.VALIDATORS}
        for sub in cnode.body:
            if isinstance(sub, ast.FunctionDef):
                decos = " ".join(ast.unparse(d) for d in sub.decorator_list)
                if ("validator" in decos and sub.name not in expected) or sub.name in ("__init__", "__new__", "model_post_init", "__post_init__"):
                    raise Unsupported(f"Record.{sub.name} also runs at construction; the constructor rule does not cover it")
            elif isinstance(sub, (ast.Assign, ast.AnnAssign)):
                tgt = sub.targets[0] if isinstance(sub, ast.Assign) else sub.target
                if isinstance(tgt, ast.Name) and tgt.id == "model_config":
                    raise Unsupported("Record.model_config changes how the model is constructed")
        order = [sub.target.id for sub in cnode.body if isinstance(sub, ast.AnnAssign) and isinstance(sub.target, ast.Name)]
        if sorted(order) != sorted(FIELDS["Record"]) or order.index("prefix") > order.index("prefix_synonyms") \
                or order.index("uri_prefix") > order.index("uri_prefix_synonyms"):
            raise Unsupported("fields of Record changed (a validator sees only the fields declared before its own)")
        if [b.id for b in cnode.bases if isinstance(b, ast.Name)] != ["BaseModel"]:
            raise Unsupported("Record is no longer a plain pydantic BaseModel")
        for q, field in self.VALIDATORS:
            if q not in self.contracts or q not in self.repo.funcs:
                raise Unsupported(f"no contract / source for the validator {q}")
            fnode = self.repo.funcs[q][0]
            wired = any(isinstance(d, ast.Call) and getattr(d.func, "id", getattr(d.func, "attr", None)) == "field_validator"
                        and [a.value for a in d.args if isinstance(a, ast.Constant)] == [field] and not d.keywords
                        for d in fnode.decorator_list)
            if not wired:
                raise Unsupported(f"{q} is no longer declared as @field_validator({field!r})")
            data = VDict(lambda k_: Or(veq(c, k_, VStr(c.lit("prefix"))), veq(c, k_, VStr(c.lit("uri_prefix")))),
                         lambda k_: vite(c, veq(c, k_, VStr(c.lit("prefix"))), vals["prefix"], vals["uri_prefix"]), "str", "str")
            parts = self.contract_parts(q, {"v": vals[field], "values": data}, st)
            for t_, src in parts["requires"]:
                if not smt.is_true(t_):
                    c.oblige(f"{self.cur_func}:precondition of {q}: {src}", "precondition", st.pc, t_, self.cur_func)
            if parts["may_raise"] or not parts["pure"]:
                raise Unsupported(f"contract of {q} must be pure with exact raises-clauses")
            bad += [when for _names, when, _src in parts["raises"]]
        c.trusted.add("pydantic passes a validator the fields validated before it (prefix, uri_prefix) as values.data and stores the value it returns")
        return Or(*bad) if bad else FALSE

    def is_sorted_values_dictcomp(self, node):
        """{k: sorted(v) for k, v in <dict>.items()}"""
        if len(node.generators) != 1 or node.generators[0].ifs:
            return False
        g = node.generators[0]
        t = g.target
        return (isinstance(t, ast.Tuple) and len(t.elts) == 2 and all(isinstance(x, ast.Name) for x in t.elts)
                and isinstance(node.key, ast.Name) and node.key.id == t.elts[0].id
                and isinstance(node.value, ast.Call) and isinstance(node.value.func, ast.Name) and node.value.func.id == "sorted"
                and len(node.value.args) == 1 and not node.value.keywords
                and isinstance(node.value.args[0], ast.Name) and node.value.args[0].id == t.elts[1].id
                and isinstance(g.iter, ast.Call) and isinstance(g.iter.func, ast.Attribute) and g.iter.func.attr == "items" and not g.iter.args)

    def sorted_values_dictcomp(self, node, st, catching):
        """Same keys; each value is an ordered permutation of the old value (one index bijection per key)."""
        c = self.ctx
        c.trusted.add("sorted()/list.sort(): result is a permutation of the input ordered by the key (stability not used)")
        outs = []
        for s1, d in self.cev(node.generators[0].iter.func.value, st, catching):
            if isinstance(d, Outcome):
                outs.append((s1, d))
                continue
            if isinstance(d, VOpt):
                d = d.val
            if not (isinstance(d, VDict) and d.kty == "str" and d.vty == ("list", "str")):
                raise Unsupported("sorted-values comprehension over " + type(d).__name__)
            N = c.fresh("sortedvals", ("dict", d.kty, d.vty))
            pi = c.fun("kperm", [c.sort(d.kty), "Int"], "Int")
            inv = c.fun("kperminv", [c.sort(d.kty), "Int"], "Int")
            k = c.bvar("k", c.sort(d.kty))
            kv = c.wrap(k, d.kty)
            i, j = c.bvar("i", "Int"), c.bvar("j", "Int")
            P_ = lambda t: app(pi, k, t, sort="Int")
            Q_ = lambda t: app(inv, k, t, sort="Int")
            rng = lambda t, n: And(Le(Int(0), t), Lt(t, n))
            old_, new_ = d.get(kv), N.get(kv)
            facts = [ForAll([k], Eq(N.has(kv), d.has(kv))),
                     ForAll([k], Implies(d.has(kv), Eq(new_.n, old_.n))),
                     ForAll([k, i], Implies(And(d.has(kv), rng(i, new_.n)),
                                            And(rng(P_(i), old_.n), Eq(Q_(P_(i)), i), veq(c, new_.at(i), old_.at(P_(i)))))),
                     ForAll([k, i], Implies(And(d.has(kv), rng(i, old_.n)),
                                            And(rng(Q_(i), new_.n), Eq(P_(Q_(i)), i), veq(c, new_.at(Q_(i)), old_.at(i))))),
                     ForAll([k, i, j], Implies(And(d.has(kv), rng(i, new_.n), rng(j, new_.n), Lt(i, j)),
                                               app("str_le", new_.at(i).t, new_.at(j).t, sort="Bool")))]
            for f_ in facts:
                s1 = s1.assume(f_)
            outs.append((s1, N))
        return outs

    def static_isinstance(self, node, st):
        """[a if isinstance(x, C) else b for x in xs] where xs is declared list[C'] : the test is decided by the
        declared element type (objects are of exactly their annotated class), so only one arm is code that runs."""
        if len(node.generators) != 1 or not isinstance(node.generators[0].target, ast.Name):
            return node
        g = node.generators[0]
        it = g.iter
        if isinstance(it, ast.Call) and isinstance(it.func, ast.Name) and it.func.id == "_prepare" and len(it.args) == 1:
            it = it.args[0]
        xs = st.env.get(it.id) if isinstance(it, ast.Name) else None
        if isinstance(xs, VOpt):
            xs = xs.val
        if not isinstance(xs, VList) or xs.ety not in FIELDS:
            return node
        tname, ety = g.target.id, xs.ety
        hit = []

        class Simp(ast.NodeTransformer):
            def visit_IfExp(inner, n):
                t_ = n.test
                if (isinstance(t_, ast.Call) and isinstance(t_.func, ast.Name) and t_.func.id == "isinstance" and len(t_.args) == 2
                        and isinstance(t_.args[0], ast.Name) and t_.args[0].id == tname
                        and isinstance(t_.args[1], ast.Name) and t_.args[1].id in FIELDS):
                    hit.append(1)
                    return inner.visit(n.body if t_.args[1].id == ety else n.orelse)
                inner.generic_visit(n)
                return n
        import copy as _copy
        new = Simp().visit(_copy.deepcopy(node))
        if hit:
            self.ctx.trusted.add("isinstance(x, C) decided by the annotated type of x")
            return ast.fix_missing_locations(new)
        return node

    def is_ctor_comprehension(self, node):
        """[Record(k=e, ...) for <targets> in <iterable>]  (no filter; keyword arguments that are pure expressions)"""
        if len(node.generators) != 1 or node.generators[0].ifs:
            return False
        e_ = node.elt
        return (isinstance(e_, ast.Call) and isinstance(e_.func, ast.Name) and e_.func.id == "Record" and not e_.args
                and all(kw.arg in FIELDS["Record"] for kw in e_.keywords)
                and not any(self.has_contracted_call(kw.value) for kw in e_.keywords))

    def ctor_comprehension(self, node, st, catching):
        """One fresh, validated Record per source element, in source order (explicit bijection = identity on indices)."""
        c = self.ctx
        g = node.generators[0]
        c.trusted.add("pydantic: Record(**kw) runs the field validators, copies list arguments, raises ValidationError (a ValueError) when a validator raises")
        outs = []
        for s0, xs in self.eval_iterable(g.iter, st, catching):
            if isinstance(xs, Outcome):
                outs.append((s0, xs))
                continue
            if isinstance(xs, VOpt):
                xs = xs.val
            if not isinstance(xs, VList):
                raise Unsupported("constructor comprehension over " + type(xs).__name__)

            def fields_at(i, s0=s0, xs=xs):
                env2 = dict(s0.env)
                vals = {}
                self.spec_sides = []
                try:
                    env2.update(self.bind_target(g.target, xs.at(i)))
                    for kw in node.elt.keywords:
                        vals[kw.arg] = self.ev(kw.value, env2, s0)
                    sides = self.spec_sides
                finally:
                    self.spec_sides = None
                return vals, sides
            k = c.bvar("k", "Int")
            rng = lambda t, n: And(Le(Int(0), t), Lt(t, n))
            c.bound.append(k)
            old_guards = list(getattr(self, "_guards", []))
            self._guards = old_guards + [rng(k, xs.n)]
            try:
                vals_k, sides_k = fields_at(k)
            finally:
                c.bound.pop()
                self._guards = old_guards
            if "prefix" not in vals_k or "uri_prefix" not in vals_k:
                raise Unsupported("Record(...) without prefix / uri_prefix")
            # safety of the argument expressions for every element (e.g. uri_prefixes[0]); `side` already quantified over k
            for fact, exc in sides_k:
                c.oblige(f"{self.where(node)}:safety:{exc} in a constructor comprehension", "safety", s0.pc, fact, self.where(node))
                s0 = s0.assume(fact)
            empty = VList(Int(0), lambda i: VStr(T("empty", "Str")), "str")
            def full(vals):
                v = dict(vals)
                v.setdefault("prefix_synonyms", empty)
                v.setdefault("uri_prefix_synonyms", empty)
                v.setdefault("pattern", VNone())
                return v
            vk = full(vals_k)
            c.bound.append(k)
            try:
                bad_k = self.validators_reject(vk, s0)
            finally:
                c.bound.pop()
            some_bad = Exists([k], And(rng(k, xs.n), bad_k))
            if not smt.is_false(some_bad):
                outs.append((s0.assume(some_bad), Outcome("raise", exc="ValidationError")))
            s1 = s0.assume(Not(some_bad)).copy()
            L = c.fresh("recs", ("list", "Record"))
            a0 = s1.alloc_arr(c, "Record")
            a1 = c.const("A_Record", a0.sort)
            s1.heap[("alloc", "Record")] = a1
            x = c.bvar("x", "Rec")
            k2 = c.bvar("k2", "Int")
            def rep_term(v):
                if isinstance(v, VTuple) and v.items:
                    return rep_term(v.items[0])
                t_ = getattr(v, "t", None)
                return t_ if isinstance(t_, T) and k.s in t_.s else None
            src_t = rep_term(xs.at(k))
            # the new record at position k is also named by its source element (so that facts about a source key reach it)
            kpats = [[L.at(k).t]] + ([[src_t]] if src_t is not None else [])
            facts = [Eq(L.n, xs.n), ForAll([x], Implies(Select(a0, x), Select(a1, x))),
                     ForAll([k], Implies(rng(k, L.n), And(Not(Select(a0, L.at(k).t)), Select(a1, L.at(k).t))), pats=kpats),
                     ForAll([k, k2], Implies(And(rng(k, L.n), rng(k2, L.n), Not(Eq(k, k2))), Not(Eq(L.at(k).t, L.at(k2).t))))]
            for f in FIELDS["Record"]:
                h0 = s1.harr(c, "Record", f)
                h1 = c.const(f"H_Record_{f}", h0.sort)
                s1.heap[("Record", f)] = h1
                facts.append(ForAll([x], Implies(Select(a0, x), Eq(Select(h1, x), Select(h0, x)))))
                fv = c.wrap(Select(h1, L.at(k).t), FIELDS["Record"][f])
                c.bound.append(k)
                try:
                    eqf = veq(c, fv, vk[f])
                finally:
                    c.bound.pop()
                facts.append(ForAll([k], Implies(rng(k, L.n), eqf), pats=kpats))
            for f_ in facts:
                s1 = s1.assume(f_)
            outs.append((s1, L))
        return outs

    def cev_boolop(self, node, st, catching):
        is_and = isinstance(node.op, ast.And)
        results = []

        def rec(k, s, acc):
            if k == len(node.values):
                results.append((s, acc))
                return
            for s1, v in self.cev(node.values[k], s, catching):
                if isinstance(v, Outcome):
                    results.append((s1, v))
                    continue
                if k == len(node.values) - 1:
                    results.append((s1, v))
                    continue
                t = truthy(self.ctx, v)
                # short-circuit path
                sc = s1.assume(Not(t) if is_and else t)
                results.append((sc, v))
                rec(k + 1, s1.assume(t if is_and else Not(t)), v)
        rec(0, st, None)
        return results

    def cev_hoist(self, node, st, catching):
        """Replace each maximal contracted call sub-expression (in source order) by a temporary."""
        calls = []

        class Finder(ast.NodeTransformer):
            def visit_Call(inner, n):
                if self.resolve_call(n, st) is not None:
                    name = f"__tmp{len(calls)}_{id(n) % 100000}"
                    calls.append((name, n))
                    return ast.copy_location(ast.Name(id=name, ctx=ast.Load()), n)
                inner.generic_visit(n)
                return n

            def visit_BoolOp(inner, n):
                if any(self.has_contracted_call(v) for v in n.values[1:]):
                    raise Unsupported("contracted call under short-circuit inside a larger expression")
                inner.generic_visit(n)
                return n

            def visit_IfExp(inner, n):
                if self.has_contracted_call(n.body) or self.has_contracted_call(n.orelse):
                    raise Unsupported("contracted call under conditional expression inside a larger expression")
                inner.generic_visit(n)
                return n

            def visit_ListComp(inner, n):
                if self.has_contracted_call(n):
                    # the first iterable is evaluated once, before anything else of the comprehension: hoist calls in it
                    g0 = n.generators[0]
                    rest = [getattr(n, "elt", None), getattr(n, "key", None), getattr(n, "value", None)] + list(g0.ifs) + [g0.target] + list(n.generators[1:])
                    if any(r is not None and self.has_contracted_call(r) for r in rest):
                        raise Unsupported("contracted call inside a comprehension")
                    g0.iter = inner.visit(g0.iter)
                return n
            visit_SetComp = visit_DictComp = visit_GeneratorExp = visit_ListComp

        import copy
        new = Finder().visit(copy.deepcopy(node))
        ast.fix_missing_locations(new)
        states = [(st, None)]
        for name, cnode in calls:
            nxt = []
            for s, o in states:
                if isinstance(o, Outcome):
                    nxt.append((s, o))
                    continue
                for s1, v in self.do_call(cnode, s, catching):
                    if isinstance(v, Outcome):
                        nxt.append((s1, v))
                    else:
                        s2 = s1.copy()
                        s2.env[name] = v
                        nxt.append((s2, None))
            states = nxt
        outs = []
        for s, o in states:
            if isinstance(o, Outcome):
                outs.append((s, o))
            else:
                outs += self.pure_eval(new, s, catching)
        return outs

    # ------------------------------------------------------------------ calls through contracts
    def bind_args(self, qualname, call, recv, st, catching):
        """Evaluate arguments; return list of (state, {param: V}) or (state, Outcome)."""
        fnode = self.repo.funcs[qualname][0] if qualname in self.repo.funcs else None
        if fnode is None:
            raise Unsupported(f"no function {qualname} in the repository")
        a = fnode.args
        pos_params = [x.arg for x in a.posonlyargs + a.args]
        is_method = self.repo.funcs[qualname][2] is not None and not any(
            isinstance(d, ast.Name) and d.id == "staticmethod" for d in fnode.decorator_list)
        states = [(st, {})]
        if is_method:
            if any(isinstance(d, ast.Name) and d.id == "classmethod" for d in fnode.decorator_list):
                pos_params = pos_params[1:]
            else:
                if recv is None:
                    raise Unsupported("instance method called without a receiver")
                states = [(st, {pos_params[0]: recv})]
                pos_params = pos_params[1:]
        if any(isinstance(x, ast.Starred) for x in call.args):
            # f(*rt) with rt a tuple view
            if len(call.args) == 1:
                outs = []
                for s, v in self.cev(call.args[0].value, st, catching):
                    if isinstance(v, Outcome):
                        outs.append((s, v))
                        continue
                    if isinstance(v, VOpt):
                        v = v.val
                    if not isinstance(v, VTuple):
                        raise Unsupported("starred non-tuple argument")
                    b = dict(states[0][1])
                    for p, x in zip(pos_params, v.items):
                        b[p] = x
                    outs.append((s, b))
                states = outs
            else:
                raise Unsupported("mixed starred arguments")
        else:
            for i, an in enumerate(call.args):
                if i >= len(pos_params):
                    raise Unsupported("too many positional arguments")
                states = self._bind_one(states, pos_params[i], an, catching)
        for kw in call.keywords:
            if kw.arg is None:
                kwv = st.env.get(kw.value.id) if isinstance(kw.value, ast.Name) else None
                if not isinstance(kwv, VKwargs):
                    raise Unsupported("**kwargs call")
                states = [(s_, (b_ if isinstance(b_, Outcome) else {**b_, **kwv.items})) for s_, b_ in states]
                continue
            states = self._bind_one(states, kw.arg, kw.value, catching)
        # defaults
        defaults = {}
        pa = a.posonlyargs + a.args
        for p, d in zip(pa[len(pa) - len(a.defaults):], a.defaults):
            defaults[p.arg] = d
        for p, d in zip(a.kwonlyargs, a.kw_defaults):
            if d is not None:
                defaults[p.arg] = d
        if a.kwarg is not None and self.repo.funcs[qualname][2] == "Converter" and "api.Converter.__init__" in self.repo.funcs:
            # keyword arguments forwarded to Converter.__init__: those not passed take the constructor's defaults
            ia = self.repo.funcs["api.Converter.__init__"][0].args
            for p, d in zip(ia.kwonlyargs, ia.kw_defaults):
                if d is not None:
                    defaults.setdefault(p.arg, d)
            ipa = ia.posonlyargs + ia.args
            for p, d in zip(ipa[len(ipa) - len(ia.defaults):], ia.defaults):
                defaults.setdefault(p.arg, d)
        out = []
        for s, b in states:
            if isinstance(b, Outcome):
                out.append((s, b))
                continue
            for p, d in defaults.items():
                if p not in b:
                    b[p] = self.ev(d, {}, s)
            out.append((s, b))
        return out

    def _bind_one(self, states, pname, node, catching):
        nxt = []
        for s, b in states:
            if isinstance(b, Outcome):
                nxt.append((s, b))
                continue
            for s1, v in self.cev(node, s, catching):
                if isinstance(v, Outcome):
                    nxt.append((s1, v))
                else:
                    b2 = dict(b)
                    b2[pname] = v
                    nxt.append((s1, b2))
        return nxt

    def do_call(self, call, st, catching=()):
        q = self.resolve_call(call, st)
        if q.startswith("lib."):
            return self.do_lib_call(q, call, st, catching)
        if q.startswith("ctor."):
            return self.do_ctor(q[5:], call, st, catching)
        recv = None
        if isinstance(call.func, ast.Attribute) and isinstance(call.func.value, ast.Name) and call.func.value.id not in st.env \
                and (("api", call.func.value.id) in self.repo.classes
                     or (call.func.value.id == "cls" and self.cur_class is not None and q == f"api.{self.cur_class}.{call.func.attr}")):
            # call through the class (cls.m(...) inside a classmethod: static dispatch to the defining class)
            outs = []
            for s, b in self.bind_args(q, call, None, st, catching):
                outs += [(s, b)] if isinstance(b, Outcome) else self.apply_contract(q, b, s, self.where(call))
            return outs
        if isinstance(call.func, ast.Attribute):
            rs = self.pure_eval(call.func.value, st, catching)
            if len(rs) != 1:
                raise Unsupported("partial receiver expression")
            st, recv = rs[0]
            if isinstance(recv, VOpt) and isinstance(recv.val, VRef):
                self.ctx.oblige(f"{self.where(call)}:safety:receiver-not-None", "safety", st.pc, Not(recv.isnone), self.where(call))
                recv = recv.val
            if not isinstance(recv, VRef):
                raise Unsupported(f"method call on {type(recv).__name__}")
            q = f"api.{recv.cls}.{call.func.attr}"
            if recv.cls == "MappingServiceGraph":
                q = f"mapping_service.api.MappingServiceGraph.{call.func.attr}"
            if q not in self.contracts:
                raise Unsupported(f"no contract for {q}")
        outs = []
        for s, b in self.bind_args(q, call, recv, st, catching):
            if isinstance(b, Outcome):
                outs.append((s, b))
                continue
            outs += self.apply_contract(q, b, s, self.where(call))
        return outs

    def contract_parts(self, q, binding, st, result=None, pre_state=None, lets=None):
        """Interpret the sidecar contract of q. Returns dict(requires, raises[(names, when)], ensures[T], pure, modifies)."""
        node = self.contracts[q]
        params = [a.arg for a in node.args.args + node.args.kwonlyargs]
        env = {}
        for p in params:
            if p not in binding:
                raise Unsupported(f"contract parameter {p} of {q} not bound")
            env[p] = binding[p]
        req, rai, ens = [], [], []
        may, rai_unch, may_unch = [], [], []
        pure = False
        modifies = []
        pre = pre_state or st
        self.in_spec += 1
        try:
            for s in node.body:
                if isinstance(s, ast.Expr) and isinstance(s.value, ast.Constant):
                    continue
                if isinstance(s, ast.Assign) and isinstance(s.targets[0], ast.Name):
                    env[s.targets[0].id] = self.ev(s.value, env, pre)
                    continue
                if isinstance(s, ast.Expr) and isinstance(s.value, ast.Call) and isinstance(s.value.func, ast.Name):
                    f = s.value.func.id
                    cnode = s.value
                    if f == "requires":
                        req.append((truthy(self.ctx, self.ev(cnode.args[0], env, pre)), ast.unparse(cnode.args[0])[:80]))
                    elif f == "pure":
                        pure = True
                    elif f == "modifies":
                        modifies += [ast.unparse(a) for a in cnode.args]
                    elif f == "hint":
                        pass
                    elif f == "may_raise":
                        may += list(self.ev(cnode.args[0], env, pre).names)
                        if any(kw.arg == "unchanged" and ast.literal_eval(kw.value) for kw in cnode.keywords):
                            may_unch += list(self.ev(cnode.args[0], env, pre).names)
                    elif f == "raises" and any(kw.arg == "native" for kw in cnode.keywords):
                        # exact condition decided natively only (e.g. by simulation): the prover sees "may raise"
                        may += list(self.ev(cnode.args[0], env, pre).names)
                        if any(kw.arg == "unchanged" and ast.literal_eval(kw.value) for kw in cnode.keywords):
                            may_unch += list(self.ev(cnode.args[0], env, pre).names)
                    elif f == "raises":
                        names = self.ev(cnode.args[0], env, pre).names
                        when = TRUE
                        unchanged = False
                        for kw in cnode.keywords:
                            if kw.arg == "when":
                                when = truthy(self.ctx, self.ev(kw.value, env, pre))
                            if kw.arg == "unchanged":
                                unchanged = bool(ast.literal_eval(kw.value))
                        rai.append((names, when, ast.unparse(cnode)[:80]))
                        rai_unch.append((names, when, unchanged))
                    elif f == "ensures":
                        if any(kw.arg == "native" for kw in cnode.keywords):
                            self.ctx.notes.append(f"clause of {q} checked natively only (bounded): {ast.unparse(cnode.args[0])[:60]}")
                            continue
                        if result is not None:
                            env2 = dict(env)
                            env2["result"] = result
                            env2["__pre__"] = pre
                            ens.append((truthy(self.ctx, self.ev_post(cnode.args[0], env2, st, pre)), ast.unparse(cnode.args[0])[:80]))
                    else:
                        raise Unsupported(f"contract statement {f}")
                    continue
                raise Unsupported("contract statement form")
        finally:
            self.in_spec -= 1
        return {"requires": req, "raises": rai, "ensures": ens, "pure": pure, "modifies": modifies, "env": env,
                "may_raise": may, "raises_unchanged": rai_unch, "may_unchanged": may_unch}

    def ev_post(self, node, env, post, pre, marker="old", pre_env=None):
        """Evaluate a postcondition / invariant: <marker>(e) sub-expressions are evaluated in the pre-state `pre`
        (lazily, where they occur, so they may mention variables bound by enclosing quantifiers)."""
        self.old_stack.append((marker, pre, pre_env))
        try:
            return self.ev(node, env, post)
        finally:
            self.old_stack.pop()

    def result_type(self, q):
        opts = self.copts.get(q, {})
        if "returns" in opts:
            return parse_ty(opts["returns"])
        fnode = self.repo.funcs[q][0]
        if fnode.returns is None:
            raise Unsupported(f"no return type for {q}")
        return parse_ty(ast.unparse(fnode.returns))

    def apply_contract(self, q, binding, st, where):
        """Caller side: check requires, split into exceptional / normal outcomes, assume ensures."""
        c = self.ctx
        # an Optional actual for a non-Optional formal: safety obligation `is not None`, then unwrap
        cnode = self.contracts[q]
        for a in cnode.args.args + cnode.args.kwonlyargs:
            v = binding.get(a.arg)
            ann = ast.unparse(a.annotation) if a.annotation is not None else ""
            if isinstance(v, VOpt) and "None" not in ann:
                c.oblige(f"{where}:argument {a.arg} of {q} is not None", "safety", st.pc, Not(v.isnone), where)
                st = st.assume(Not(v.isnone))
                binding = dict(binding)
                binding[a.arg] = v.val
        parts = self.contract_parts(q, binding, st)
        for t, src in parts["requires"]:
            c.oblige(f"{where}:precondition of {q}: {src}", "precondition", st.pc, t, where)
        outs = []
        normal = st
        for names, when, src in parts["raises"]:
            if smt.is_false(when):
                continue
            outs.append((st.assume(when), Outcome("raise", exc=names[0])))
            normal = normal.assume(Not(when))
        for name in parts["may_raise"]:
            # may_raise: the callee may fail here for reasons the contract leaves open
            unchanged = parts["pure"] or name in parts["may_unchanged"]
            s_exc = st if unchanged else self.havoc_modifies(q, parts, binding, st)
            outs.append((s_exc, Outcome("raise", exc=name)))
        rty = self.result_type(q)
        result = c.fresh("r_" + q.split(".")[-1], rty)
        post = normal
        if not parts["pure"]:
            post = self.havoc_modifies(q, parts, binding, normal)
        parts2 = self.contract_parts(q, binding, post, result=result, pre_state=st)
        for t, src in parts2["ensures"]:
            post = post.assume(t)
        outs.append((post, result))
        return outs

    # ------------------------------------------------------------------ frames
    def modifies_locations(self, q, binding, st):
        """Evaluate the modifies(...) clauses of q's contract in state st: list of ('obj', VRef) |
        ('field', VRef, name) | ('objs', VList of VRef)."""
        node = self.contracts[q]
        env = dict(binding)
        locs = []
        self.in_spec += 1
        try:
            for s_ in node.body:
                if isinstance(s_, ast.Assign) and isinstance(s_.targets[0], ast.Name):
                    try:
                        env[s_.targets[0].id] = self.ev(s_.value, env, st)
                    except Unsupported:
                        pass
                    continue
                if isinstance(s_, ast.Expr) and isinstance(s_.value, ast.Call) and isinstance(s_.value.func, ast.Name) and s_.value.func.id == "modifies":
                    for a in s_.value.args:
                        if isinstance(a, ast.Starred):
                            v = self.ev(a.value, env, st)
                            if not isinstance(v, VList):
                                raise Unsupported("modifies(*x) of a non-list")
                            locs.append(("objs", v))
                        elif isinstance(a, ast.Attribute):
                            base = self.ev(a.value, env, st)
                            if isinstance(base, VOpt):
                                base = base.val
                            if isinstance(base, VRef) and a.attr in FIELDS[base.cls]:
                                locs.append(("field", base, a.attr))
                            else:
                                raise Unsupported("modifies target " + ast.unparse(a))
                        else:
                            v = self.ev(a, env, st)
                            if isinstance(v, VOpt):
                                v = v.val
                            if isinstance(v, VRef):
                                locs.append(("obj", v))
                            elif isinstance(v, VNone):
                                pass
                            else:
                                raise Unsupported("modifies target " + ast.unparse(a))
        finally:
            self.in_spec -= 1
        return locs

    def allowed(self, locs, cls, f, x):
        """x (a term of the reference sort of cls) is a location of field f that the contract allows to change."""
        c = self.ctx
        alts = []
        for loc in locs:
            if loc[0] == "obj" and loc[1].cls == cls:
                alts.append(Eq(x, loc[1].t))
            elif loc[0] == "field" and loc[1].cls == cls and loc[2] == f:
                alts.append(Eq(x, loc[1].t))
            elif loc[0] == "objs" and loc[1].ety == cls:
                i = c.bvar("i", "Int")
                alts.append(Exists([i], And(Le(Int(0), i), Lt(i, loc[1].n), Eq(loc[1].at(i).t, x))))
        return Or(*alts)

    def frame_condition(self, locs, pre, post):
        """Everything allocated in `pre` and not named by locs has the same field values in `post`."""
        c = self.ctx
        out = []
        for cls, f in FIELDS_KEYS():
            a0 = pre.harr(c, cls, f)
            a1 = post.harr(c, cls, f)
            if a0.s == a1.s:
                continue
            x = c.bvar("x", REF_SORT[cls])
            out.append((f"{cls}.{f}", ForAll([x], Implies(And(Select(pre.alloc_arr(c, cls), x), Not(self.allowed(locs, cls, f, x))),
                                                         Eq(Select(a1, x), Select(a0, x))))))
        return out

    def havoc_modifies(self, q, parts, binding, st):
        """Caller side of a non-pure call: fresh heap arrays for the fields named by modifies(...), framed."""
        c = self.ctx
        locs = self.modifies_locations(q, binding, st)
        post = st.copy()
        touched = set()
        for loc in locs:
            cls = loc[1].cls if loc[0] != "objs" else loc[1].ety
            for f in FIELDS[cls]:
                if loc[0] == "field" and loc[2] != f:
                    continue
                touched.add((cls, f))
        # callee may allocate: allocation only grows
        for cls in ("Record", "Converter"):
            a0 = st.alloc_arr(c, cls)
            a1 = c.const(f"A_{cls}", a0.sort)
            x = c.bvar("x", REF_SORT[cls])
            post.heap[("alloc", cls)] = a1
            post = post.assume(ForAll([x], Implies(Select(a0, x), Select(a1, x))))
        for cls, f in FIELDS_KEYS():
            # fields of objects allocated by the callee are unconstrained; named locations are havocked
            a0 = st.harr(c, cls, f)
            a1 = c.const(f"H_{cls}_{f}", a0.sort)
            post.heap[(cls, f)] = a1
        for name, cond in self.frame_condition(locs, st, post):
            post = post.assume(cond)
        return post

    # ------------------------------------------------------------------ assumed library contracts
    def do_lib_call(self, q, call, st, catching):
        c = self.ctx
        if q == "lib.StringTrie.longest_prefix_item":
            # pytrie.StringTrie.longest_prefix_item(u): (k, trie[k]) for the longest key k that is a
            # prefix of u; KeyError iff no key is a prefix of u.   [assumed; audited bounded]
            c.trusted.add("pytrie.StringTrie.longest_prefix_item: returns (k, trie[k]) for the longest stored key k with u.startswith(k); raises KeyError iff there is none")
            if len(call.args) != 1 or call.keywords:
                raise Unsupported("StringTrie.longest_prefix_item with a default argument (no assumed contract for that form)")
            rs = self.pure_eval(call.func.value.value, st, catching)
            st, conv = rs[-1]
            (s1, u), = [x for x in self.pure_eval(call.args[0], st, catching)][-1:]
            trie = s1.field(c, conv, "trie")
            k = c.bvar("k", "Str")
            kv = VStr(k)
            anykey = Exists([k], And(trie.has(kv), app("prefixof", k, u.t, sort="Bool")))
            outs = []
            miss = s1.assume(Not(anykey))
            outs.append((miss, Outcome("raise", exc="KeyError")))
            key = c.const("trie_key", "Str")
            k2 = c.bvar("k2", "Str")
            hit = s1.assume(And(
                trie.has(VStr(key)), app("prefixof", key, u.t, sort="Bool"),
                ForAll([k2], Implies(And(trie.has(VStr(k2)), app("prefixof", k2, u.t, sort="Bool")),
                                     Le(app("slen", k2, sort="Int"), app("slen", key, sort="Int"))))))
            outs.append((hit, VTuple([VStr(key), trie.get(VStr(key))])))
            return outs
        if q == "lib.sorted":
            if len(call.args) != 1:
                raise Unsupported("sorted() arity")
            key_fn = None
            reverse = False
            for kw in call.keywords:
                if kw.arg == "key":
                    if isinstance(kw.value, ast.Lambda) and len(kw.value.args.args) == 1:
                        lam = kw.value
                        key_fn = lambda v, lam=lam, st=st: self.ev(lam.body, {**st.env, lam.args.args[0].arg: v}, st)
                    elif isinstance(kw.value, ast.Name) and kw.value.id == "len":
                        key_fn = lambda v: VInt(app("slen", v.t, sort="Int"))
                    else:
                        raise Unsupported("sorted key form")
                elif kw.arg == "reverse":
                    reverse = ast.literal_eval(kw.value)
                else:
                    raise Unsupported("sorted keyword")
            a0 = call.args[0]
            if (key_fn is None and not reverse and isinstance(a0, ast.Call) and isinstance(a0.func, ast.Attribute) and a0.func.attr == "items"
                    and not a0.args and not self.has_contracted_call(a0.func.value)):
                outs = []
                for s1, d in self.pure_eval(a0.func.value, st, catching):
                    if isinstance(d, VOpt):
                        d = d.val
                    if isinstance(d, VDict) and d.kty == "str":
                        # sorted(d.items()): keys are distinct, so tuple order is key order
                        sk = self.sorted_list(self.dict_as_list(d, "keys"))
                        outs.append((s1, VList(sk.n, lambda t, d=d, sk=sk: VTuple([sk.at(t), d.get(sk.at(t))]), ("tuple", (d.kty, d.vty), None))))
                    else:
                        raise Unsupported("sorted(.items()) of " + type(d).__name__)
                return outs
            outs = []
            for s1, v in self.cev(call.args[0], st, catching):
                if isinstance(v, Outcome):
                    outs.append((s1, v))
                    continue
                if isinstance(v, VOpt):
                    v = v.val
                if isinstance(v, VSet):
                    v = self.set_as_list(v)
                if isinstance(v, VDict):
                    v = self.dict_as_list(v, "keys")
                if not isinstance(v, VList):
                    raise Unsupported("sorted() of " + type(v).__name__)
                outs.append((s1, self.sorted_list(v, key_fn, reverse)))
            return outs
        if q == "lib._get_field_validator_values":
            # _get_field_validator_values(values, key) is `return values.data[key]` (checked on the current source); the
            # contracts of the validators take `values` to be that mapping (the fields validated so far)
            fn = self.repo.funcs.get("api._get_field_validator_values", (None,))[0]
            body = [s_ for s_ in (fn.body if fn is not None else []) if not (isinstance(s_, ast.Expr) and isinstance(s_.value, ast.Constant))]
            ok = (len(body) == 1 and isinstance(body[0], ast.Return) and len(call.args) == 2 and not call.keywords
                  and ast.unparse(body[0].value) == f"{fn.args.args[0].arg}.data[{fn.args.args[1].arg}]")
            if not ok:
                raise Unsupported("_get_field_validator_values is no longer `return values.data[key]`")
            outs = []
            for s1, v in self.pure_eval(ast.Subscript(value=call.args[0], slice=call.args[1], ctx=ast.Load()), st, catching):
                outs.append((s1, v))
            return outs
        if q == "lib._prepare":
            # _prepare(data): `isinstance(data, Path)` / `isinstance(data, str)` branches read files or URLs; for any other
            # object the body is `else: return data` (checked on the current source). Only that branch is in scope here.
            fn = self.repo.funcs.get("api._prepare", (None,))[0]
            ok = False
            if fn is not None and len(call.args) == 1 and not call.keywords:
                last = fn.body[-1]
                while isinstance(last, ast.If) and last.orelse:
                    tail = last.orelse
                    last = tail[-1] if not (len(tail) == 1 and isinstance(tail[0], ast.If)) else tail[0]
                    if isinstance(last, ast.Return):
                        break
                ok = isinstance(last, ast.Return) and isinstance(last.value, ast.Name) and last.value.id == fn.args.args[0].arg
                # ... and the branches before it are taken for Path / str objects only
                p0 = fn.args.args[0].arg
                tests, node_ = [], fn.body[-1]
                while isinstance(node_, ast.If):
                    tests.append(ast.unparse(node_.test))
                    node_ = node_.orelse[0] if len(node_.orelse) == 1 and isinstance(node_.orelse[0], ast.If) else None
                ok = ok and tests == [f"isinstance({p0}, Path)", f"isinstance({p0}, str)"]
            if not ok:
                raise Unsupported("_prepare is no longer `if isinstance(data, Path) ... elif isinstance(data, str) ... else: return data`")
            c.trusted.add("_prepare(obj) returns obj for in-memory objects (its file / URL branches are outside the proof: bounded lemma C13.path_str_object_agree)")
            outs = []
            for s1, v in self.cev(call.args[0], st, catching):
                if not isinstance(v, Outcome) and isinstance(v, (VStr,)):
                    raise Unsupported("_prepare of a string (file / URL branch)")
                outs.append((s1, v))
            return outs
        if q == "lib.StringTrie":
            c.trusted.add("pytrie.StringTrie(mapping) stores exactly the items of the mapping (a copy)")
            outs = []
            for s1, v in self.cev(call.args[0], st, catching):
                outs.append((s1, v))
            return outs
        if q == "lib.model_copy":
            deep = any(kw.arg == "deep" and isinstance(kw.value, ast.Constant) and kw.value.value is True for kw in call.keywords)
            if not deep or call.args:
                raise Unsupported("model_copy() that is not deep=True: the copy would share the synonym list objects, which the heap model (lists as values) cannot represent")
            c.trusted.add("pydantic BaseModel.model_copy(deep=True) returns a fresh object with equal field values")
            rs = self.pure_eval(call.func.value, st, catching)
            s1, src = rs[-1]
            if isinstance(src, VOpt):
                src = src.val
            if not isinstance(src, VRef) or src.cls != "Record":
                raise Unsupported("model_copy of " + type(src).__name__)
            s2, r = s1.allocate(c, "Record", "copy")
            s_before = s2
            s2 = self.cut_fresh_distinct(s2, r, self.where(call))
            for f in FIELDS["Record"]:
                s2 = s2.set_field(c, r, f, s1.field(c, src, f))
            s2 = self.cut_frame_for_converters(s_before, s2, self.where(call))
            return [(s2, r)]
        raise Unsupported(f"library call {q}")

    def cut_fresh_distinct(self, st, r, where):
        """Intermediate lemma (proved as its own obligation, then assumed): a freshly allocated record is none of
        the records of the converters in scope. Makes the later frame reasoning a one-step instantiation."""
        c = self.ctx
        for name, v in sorted(st.env.items()):
            recs = None
            if isinstance(v, VRef) and v.cls == "Converter":
                recs = st.field(c, v, "records")
                name = name + ".records"
            elif isinstance(v, VList) and v.ety == "Record" and not name.startswith("__"):
                recs = v
            if recs is not None and recs.n.s != "0":
                i = c.bvar("i", "Int")
                fact = ForAll([i], Implies(And(Le(Int(0), i), Lt(i, recs.n)), Not(Eq(recs.at(i).t, r.t))), pats=[[recs.at(i).t]])
                c.oblige(f"{where}:lemma: fresh record is not in {name}", "lemma", st.pc, fact, where)
                fact.conj = None
                st = st.assume(fact)
                st.pc[-1].conj = "cut"
        return st

    def cut_frame_for_converters(self, before, after, where):
        """Intermediate lemma (own obligation, then assumed): initialising a fresh record leaves every field of the
        records of the converters in scope unchanged — stated per field so that it works as a rewrite rule."""
        c = self.ctx
        for name, v in sorted(after.env.items()):
            recs = None
            if isinstance(v, VRef) and v.cls == "Converter":
                recs = before.field(c, v, "records")
                name = name + ".records"
            elif isinstance(v, VList) and v.ety == "Record" and not name.startswith("__"):
                recs = v
            if recs is not None and recs.n.s != "0":
                for f in FIELDS["Record"]:
                    a0, a1 = before.harr(c, "Record", f), after.harr(c, "Record", f)
                    if a0.s == a1.s:
                        continue
                    i = c.bvar("i", "Int")
                    fact = ForAll([i], Implies(And(Le(Int(0), i), Lt(i, recs.n)), Eq(Select(a1, recs.at(i).t), Select(a0, recs.at(i).t))),
                                  pats=[[Select(a1, recs.at(i).t)]])
                    c.oblige(f"{where}:lemma: {f} of {name} unchanged by initialising the fresh record", "lemma", after.pc, fact, where)
                    after = after.assume(fact)
                    after.pc[-1].conj = "cut"
        return after

    def set_as_list(self, sv):
        """Some list of the distinct elements of a set (iteration order of a set: unspecified but fixed)."""
        c = self.ctx
        lst = c.fresh("elems", ("list", sv.ety))
        i, j = c.bvar("i", "Int"), c.bvar("j", "Int")
        rng = lambda t: And(Le(Int(0), t), Lt(t, lst.n))
        c.assumptions.append(ForAll([i], Implies(rng(i), sv.has(lst.at(i)))))
        c.assumptions.append(ForAll([i, j], Implies(And(rng(i), rng(j), Not(Eq(i, j))), Not(veq(c, lst.at(i), lst.at(j))))))
        x = c.bvar("x", c.sort(sv.ety))
        xv = c.wrap(x, sv.ety)
        idx = c.fun("elemidx", [c.sort(sv.ety)], "Int")
        ix = app(idx, x, sort="Int")
        c.assumptions.append(ForAll([x], Implies(sv.has(xv), And(rng(ix), veq(c, lst.at(ix), xv)))))
        # the same, instantiated along an explicit description of (a superset of) the set: index quantifiers with usable triggers
        sup = sv.parts if sv.parts is not None else getattr(sv, "super_parts", None)
        for pk, pv in (sup or []):
            if pk == "one":
                ie = app(idx, c.term(pv, sv.ety), sort="Int")
                c.assumptions.append(Implies(sv.has(pv), And(rng(ie), veq(c, lst.at(ie), pv))))
            elif isinstance(pv, VList):
                m_ = c.bvar("m", "Int")
                el = pv.at(m_)
                ie = app(idx, c.term(el, sv.ety), sort="Int")
                c.assumptions.append(ForAll([m_], Implies(And(Le(Int(0), m_), Lt(m_, pv.n), sv.has(el)), And(rng(ie), veq(c, lst.at(ie), el)))))
        return lst

    def do_ctor(self, cls, call, st, catching):
        c = self.ctx
        if cls == "Converter":
            q = "api.Converter.__init__"
            if q not in self.contracts:
                raise Unsupported("no contract for Converter.__init__")
            s1, r = st.allocate(c, "Converter", "conv")
            outs = []
            for s2, b in self.bind_args(q, call, r, s1, catching):
                if isinstance(b, Outcome):
                    outs.append((s2, b))
                    continue
                for s3, v in self.apply_contract(q, b, s2, self.where(call)):
                    outs.append((s3, v if isinstance(v, Outcome) else r))
            return outs
        if cls == "Record":
            # pydantic model construction: keyword arguments; the two field validators of Record reject a
            # canonical value listed among its own synonyms (their bodies are verified separately)
            c.trusted.add("pydantic: Record(**kw) runs the field validators, copies list arguments, raises ValidationError (a ValueError) when a validator raises")
            vals = {}
            states = [(st, {})]
            if call.args:
                raise Unsupported("positional Record(...)")
            for kw in call.keywords:
                if kw.arg is None:
                    raise Unsupported("Record(**mapping)")
                states = self._bind_one(states, kw.arg, kw.value, catching)
            outs = []
            for s1, b in states:
                if isinstance(b, Outcome):
                    outs.append((s1, b))
                    continue
                if "prefix" not in b or "uri_prefix" not in b:
                    raise Unsupported("Record(...) without prefix / uri_prefix")
                empty = VList(Int(0), lambda i: VStr(T("empty", "Str")), "str")
                b.setdefault("prefix_synonyms", empty)
                b.setdefault("uri_prefix_synonyms", empty)
                b.setdefault("pattern", VNone())
                for k in ("prefix_synonyms", "uri_prefix_synonyms"):
                    if isinstance(b[k], VOpt):
                        raise Unsupported("optional synonyms argument")
                    if isinstance(b[k], VSet):
                        b[k] = self.set_as_list(b[k])
                bad = self.validators_reject(b, s1)
                if not smt.is_false(bad):
                    outs.append((s1.assume(bad), Outcome("raise", exc="ValidationError")))
                s2, r = s1.assume(Not(bad)).allocate(c, "Record", "rec")
                s_before = s2
                s2 = self.cut_fresh_distinct(s2, r, self.where(call))
                for f in FIELDS["Record"]:
                    s2 = s2.set_field(c, r, f, b[f])
                s2 = self.cut_frame_for_converters(s_before, s2, self.where(call))
                outs.append((s2, r))
            return outs
        raise Unsupported("constructor " + cls)

    # ------------------------------------------------------------------ statements
    def run_block(self, stmts, st, catching=()):
        states = [(st, Outcome("normal"))]
        for s in stmts:
            nxt = []
            for cur, o in states:
                if o.kind != "normal":
                    nxt.append((cur, o))
                    continue
                nxt += self.run_stmt(s, cur, catching)
            states = nxt
            if len(states) > MAX_PATHS:
                raise Unsupported("path explosion")
        return states

    def run_stmt(self, s, st, catching):
        m = getattr(self, "st_" + type(s).__name__, None)
        if m is None:
            raise Unsupported(f"statement {type(s).__name__}")
        try:
            return m(s, st, catching)
        except Unsupported as e:
            # a construct outside the subset only matters if the statement can be reached: a path whose condition is
            # refuted (e.g. the `expand` branch under `requires(not expand)`) is dropped, and the drop is recorded
            if self.path_dead(st):
                self.ctx.dropped.add(f"{self.where(s)}: unreachable under the precondition, not translated ({e})")
                return []
            raise

    def path_dead(self, st):
        from . import prove as _prove
        from .symex import Obligation
        try:
            ob = Obligation(f"{self.cur_func}:reachability", "canary", st.pc, FALSE, self.cur_func)
            r = smt.solve(_prove.query_text(self.ctx, ob), 5)
            return r["result"] == "unsat"
        except Exception:
            return False

    def st_Pass(self, s, st, catching):
        return [(st, Outcome("normal"))]

    def st_Expr(self, s, st, catching):
        if isinstance(s.value, ast.Constant):
            return [(st, Outcome("normal"))]
        if isinstance(s.value, ast.Call):
            src = ast.unparse(s.value.func)
            if src.startswith(SKIP_CALL_PREFIXES) or src in ("warnings.warn",):
                for a in list(s.value.args) + [k.value for k in s.value.keywords]:
                    if self.has_contracted_call(a):
                        raise Unsupported("contracted call inside a logging call")
                self.ctx.dropped.add(src)
                return [(st, Outcome("normal"))]
            if isinstance(s.value.func, ast.Name) and s.value.func.id in ("requires", "pure", "hint", "modifies"):
                if s.value.func.id == "requires":
                    self.in_spec += 1
                    try:
                        t = truthy(self.ctx, self.ev(s.value.args[0], st.env, st))
                    finally:
                        self.in_spec -= 1
                    return [(st.assume(t), Outcome("normal"))]
                return [(st, Outcome("normal"))]
            # mutation through a local container: x.append(v)
            if isinstance(s.value.func, ast.Attribute) and isinstance(s.value.func.value, ast.Name) and s.value.func.attr in ("append",):
                name = s.value.func.value.id
                outs = []
                for s1, v in self.cev(s.value.args[0], st, catching):
                    if isinstance(v, Outcome):
                        outs.append((s1, v))
                        continue
                    lst = s1.env.get(name)
                    if not isinstance(lst, VList):
                        raise Unsupported(f"{name}.append on non-list")
                    s2 = s1.copy()
                    from .symex import concat_lists
                    s2.env[name] = concat_lists(self.ctx, lst, VList(Int(1), lambda i, v=v: v, lst.ety))
                    outs.append((s2, Outcome("normal")))
                return outs
            if isinstance(s.value.func, ast.Attribute) and s.value.func.attr in ("append", "sort", "add", "extend") \
                    and isinstance(s.value.func.value, (ast.Attribute, ast.Subscript)):
                return self.mutate_container(s.value, st, catching)
            if isinstance(s.value.func, ast.Attribute) and isinstance(s.value.func.value, ast.Name) and s.value.func.attr in ("sort", "add", "extend"):
                return self.mutate_container(s.value, st, catching)
        outs = []
        for s1, v in self.cev(s.value, st, catching):
            outs.append((s1, v if isinstance(v, Outcome) else Outcome("normal")))
        return outs

    def sorted_list(self, lst, key_fn=None, reverse=False):
        """sorted()/list.sort(): a fresh list that is a permutation of the argument (explicit index bijection)
        and ordered by the key (str order / int order). Stability is not modelled.   [assumed built-in contract]"""
        c = self.ctx
        c.trusted.add("sorted()/list.sort(): result is a permutation of the input ordered by the key (stability not used)")
        out = c.fresh("sorted", ("list", lst.ety))
        pi = c.fun("perm", ["Int"], "Int")
        inv = c.fun("perminv", ["Int"], "Int")
        i = c.bvar("i", "Int")
        rng = lambda t, n: And(Le(Int(0), t), Lt(t, n))
        P = lambda t: app(pi, t, sort="Int")
        Q = lambda t: app(inv, t, sort="Int")
        c.assumptions.append(Eq(out.n, lst.n))
        c.assumptions.append(ForAll([i], Implies(rng(i, out.n), And(rng(P(i), lst.n), Eq(Q(P(i)), i), veq(c, out.at(i), lst.at(P(i)))))))
        c.assumptions.append(ForAll([i], Implies(rng(i, lst.n), And(rng(Q(i), out.n), Eq(P(Q(i)), i), veq(c, out.at(Q(i)), lst.at(i))))))
        # ordering
        j = c.bvar("j", "Int")
        def keyof(v):
            return key_fn(v) if key_fn else v
        a, b = keyof(out.at(i)), keyof(out.at(j))
        if isinstance(a, VStr):
            le = app("str_le", a.t, b.t, sort="Bool") if not reverse else app("str_le", b.t, a.t, sort="Bool")
        elif isinstance(a, VInt):
            le = Le(a.t, b.t) if not reverse else Le(b.t, a.t)
        elif isinstance(a, VTuple) and all(isinstance(x, VStr) for x in a.items):
            # lexicographic order on tuples of strings: only the first component is used by the proofs
            le = app("str_le", a.items[0].t, b.items[0].t, sort="Bool")
        else:
            raise Unsupported("sort key of type " + type(a).__name__)
        c.assumptions.append(ForAll([i, j], Implies(And(rng(i, out.n), rng(j, out.n), Lt(i, j)), le)))
        return out

    def mutate_container(self, call, st, catching):
        c = self.ctx
        m = call.func.attr
        target = call.func.value
        outs = []
        arg_states = [(st, None)] if not call.args else self.cev(call.args[0], st, catching)
        for s1, v in arg_states:
            if isinstance(v, Outcome):
                outs.append((s1, v))
                continue
            cur = self.ev(target, s1.env, s1)
            if isinstance(cur, VOpt):
                cur = cur.val
            if m == "append" and isinstance(cur, VList):
                from .symex import concat_lists
                new = concat_lists(c, cur, VList(Int(1), lambda i, v=v: v, cur.ety))
            elif m == "sort" and isinstance(cur, VList) and not call.args and not call.keywords:
                new = self.sorted_list(cur)
            elif m == "add" and isinstance(cur, VSet):
                new = VSet(lambda x, cur=cur, v=v: Or(veq(c, x, v), cur.has(x)), cur.ety)
            else:
                raise Unsupported(f".{m} on {type(cur).__name__}")
            outs.append((self.assign_target(target, new, s1), Outcome("normal")))
        return outs

    def st_Assert(self, s, st, catching):
        self.in_spec += 1
        try:
            outs = []
            for s1, v in self.cev(s.test, st, catching):
                if isinstance(v, Outcome):
                    outs.append((s1, v))
                    continue
                t = truthy(self.ctx, v)
                self.ctx.oblige(f"{self.where(s)}:assert {ast.unparse(s.test)[:70]}", "assert", s1.pc, t, self.where(s))
                outs.append((s1.assume(t), Outcome("normal")))
            return outs
        finally:
            self.in_spec -= 1

    def assign_target(self, target, v, st):
        if isinstance(target, ast.Name):
            s2 = st.copy()
            s2.env[target.id] = v
            return s2
        if isinstance(target, ast.Tuple):
            if isinstance(v, VOpt) and isinstance(v.val, VTuple):
                v = v.val
            if isinstance(v, VTuple) and len(v.items) == len(target.elts) and not any(isinstance(e, ast.Starred) for e in target.elts):
                for t, x in zip(target.elts, v.items):
                    st = self.assign_target(t, x, st)
                return st
            if isinstance(v, VList) and not any(isinstance(e, ast.Starred) for e in target.elts):
                # unpacking a list: ValueError unless the length matches
                self.ctx.oblige(f"{self.cur_func}:safety:ValueError:unpack {len(target.elts)} values", "safety", st.pc,
                                Eq(v.n, Int(len(target.elts))), self.cur_func)
                st = st.assume(Eq(v.n, Int(len(target.elts))))
                for k, t in enumerate(target.elts):
                    st = self.assign_target(t, v.at(Int(k)), st)
                return st
            if (isinstance(v, VList) and len(target.elts) == 2 and not isinstance(target.elts[0], ast.Starred)
                    and isinstance(target.elts[1], ast.Starred)):
                # first, *rest = lst : ValueError when the list is empty; rest is the tail as a new list
                self.ctx.oblige(f"{self.cur_func}:safety:ValueError:unpack first, *rest", "safety", st.pc, Le(Int(1), v.n), self.cur_func)
                st = st.assume(Le(Int(1), v.n))
                st = self.assign_target(target.elts[0], v.at(Int(0)), st)
                rest = VList(Sub(v.n, Int(1)), lambda i, v=v: v.at(Add(i, Int(1))), v.ety, shift=(v, Int(1)))
                return self.assign_target(target.elts[1].value, rest, st)
            raise Unsupported("unpacking shape")
        if isinstance(target, ast.Attribute):
            base = self.ev(target.value, st.env, st)
            if isinstance(base, VRef) and target.attr in FIELDS[base.cls]:
                return st.set_field(self.ctx, base, target.attr, v)
            raise Unsupported("attribute store")
        if isinstance(target, ast.Subscript):
            # d[k] = v on a local dict or a dict field
            key = self.ev(target.slice, st.env, st)
            cont = self.ev(target.value, st.env, st)
            if isinstance(cont, VOpt):
                cont = cont.val
            if isinstance(cont, VDict) and getattr(cont, "empty", False):
                typed = cont.kty != "str" or cont.vty != "str"
                new = VDict(lambda k, key=key: veq(self.ctx, k, key), lambda k, v=v: v, cont.kty if typed else ty_of(key), cont.vty if typed else ty_of(v))
                new.default = getattr(cont, "default", None)
                return self.assign_target(target.value, new, st)
            if isinstance(cont, VDict):
                dflt = getattr(cont, "default", None)
                new = VDict(lambda k, cont=cont, key=key: Or(veq(self.ctx, k, key), cont.has(k)),
                            lambda k, cont=cont, key=key, v=v: vite(self.ctx, veq(self.ctx, k, key), v, cont.get(k)), cont.kty, cont.vty)
                new.default = dflt
                return self.assign_target(target.value, new, st)
            raise Unsupported("subscript store on " + type(cont).__name__)
        raise Unsupported("assignment target")

    def st_Assign(self, s, st, catching):
        if len(s.targets) != 1:
            raise Unsupported("chained assignment")
        outs = []
        try:
            evaluated = self.cev(s.value, st, catching)
        except Unsupported as e:
            # a local that only feeds messages (e.g. `msg = "".join(...)`): keep it opaque; any real use fails later
            if isinstance(s.targets[0], ast.Name) and not self.has_contracted_call(s.value) and isinstance(s.value, (ast.Call, ast.JoinedStr)):
                self.ctx.dropped.add(f"opaque local {s.targets[0].id} = {ast.unparse(s.value)[:40]} ({e})")
                s2 = st.copy()
                s2.env[s.targets[0].id] = VOpaque()
                return [(s2, Outcome("normal"))]
            raise
        for s1, v in evaluated:
            if isinstance(v, Outcome):
                outs.append((s1, v))
            else:
                outs.append((self.assign_target(s.targets[0], v, s1), Outcome("normal")))
        return outs

    def st_AnnAssign(self, s, st, catching):
        if s.value is None:
            return [(st, Outcome("normal"))]
        outs = self.st_Assign(ast.Assign(targets=[s.target], value=s.value, lineno=s.lineno), st, catching)
        # an empty container literal takes its element types from the annotation
        if isinstance(s.target, ast.Name):
            ann = ast.unparse(s.annotation)
            m = re.fullmatch(r"(?:defaultdict|dict|Dict|Mapping)\[(.+)\]", ann)
            if m:
                try:
                    from .symex import _split_top
                    k, v = _split_top(m.group(1), ",")
                    kty, vty = parse_ty(k), parse_ty(v)
                except Unsupported:
                    return outs
                res = []
                for s1, o in outs:
                    d = s1.env.get(s.target.id)
                    if isinstance(d, VDict) and getattr(d, "empty", False):
                        junk = self.ctx.fresh("junk", vty)
                        nd = VDict(lambda k_: FALSE, lambda k_, junk=junk: junk, kty, vty)
                        nd.empty = True
                        nd.default = getattr(d, "default", None)
                        s1 = s1.copy()
                        s1.env[s.target.id] = nd
                    res.append((s1, o))
                return res
        return outs

    def st_Return(self, s, st, catching):
        if s.value is None:
            return [(st, Outcome("return", VNone()))]
        outs = []
        for s1, v in self.cev(s.value, st, catching):
            outs.append((s1, v if isinstance(v, Outcome) else Outcome("return", v)))
        return outs

    def st_Raise(self, s, st, catching):
        if s.exc is None:
            if st.exc is None:
                raise Unsupported("bare raise outside handler")
            return [(st, Outcome("raise", exc=st.exc))]
        e = s.exc
        name = None
        if isinstance(e, ast.Call) and isinstance(e.func, ast.Name):
            name = e.func.id
            for a in list(e.args) + [k.value for k in e.keywords]:
                if self.has_contracted_call(a):
                    raise Unsupported("contracted call inside exception arguments")
                if not self.message_cannot_raise(a):
                    # building the message could itself raise (e.g. "%d" % x, str.format): that would be an exception of
                    # another type escaping — outside what the engine models, so the function is not verifiable as written
                    raise Unsupported("exception argument whose construction may raise: " + ast.unparse(a)[:50])
        elif isinstance(e, ast.Name):
            name = e.id
        if name is None or name not in self.repo.exc:
            raise Unsupported(f"raise of {ast.unparse(e)[:40]}")
        return [(st, Outcome("raise", exc=name))]

    def message_cannot_raise(self, node):
        """Syntactic whitelist for exception-message expressions: constants, names, attributes of names, f-strings of
        those without format specs, tuples/lists of those. Formatting str/int/list/dict/Record objects cannot raise."""
        if isinstance(node, (ast.Constant, ast.Name)):
            return True
        if isinstance(node, ast.Attribute):
            return self.message_cannot_raise(node.value)
        if isinstance(node, ast.JoinedStr):
            return all(isinstance(p, ast.Constant) or (isinstance(p, ast.FormattedValue) and p.format_spec is None
                                                        and self.message_cannot_raise(p.value)) for p in node.values)
        if isinstance(node, (ast.Tuple, ast.List)):
            return all(self.message_cannot_raise(x) for x in node.elts)
        return False

    def st_If(self, s, st, catching):
        outs = []
        for s1, v in self.cev(s.test, st, catching):
            if isinstance(v, Outcome):
                outs.append((s1, v))
                continue
            t = truthy(self.ctx, v)
            if not smt.is_false(t):
                outs += self.run_block(s.body, s1.assume(t), catching)
            if not smt.is_true(t):
                outs += self.run_block(s.orelse, s1.assume(Not(t)), catching) if s.orelse else [(s1.assume(Not(t)), Outcome("normal"))]
        return outs

    def st_Try(self, s, st, catching):
        if s.finalbody:
            raise Unsupported("try/finally")
        handled = []
        for h in s.handlers:
            if h.type is None:
                handled.append("Exception")
            elif isinstance(h.type, ast.Name):
                handled.append(h.type.id)
            elif isinstance(h.type, ast.Tuple):
                handled += [e.id for e in h.type.elts]
            else:
                raise Unsupported("handler type")
        outs = []
        for s1, o in self.run_block(s.body, st, tuple(catching) + tuple(handled)):
            if o.kind == "normal":
                outs += self.run_block(s.orelse, s1, catching) if s.orelse else [(s1, o)]
            elif o.kind == "raise":
                taken = False
                for h in s.handlers:
                    hs = ["Exception"] if h.type is None else ([h.type.id] if isinstance(h.type, ast.Name) else [e.id for e in h.type.elts])
                    if any(self.repo.subclass(o.exc, x) for x in hs):
                        s2 = s1.copy()
                        s2.exc = o.exc
                        if h.name:
                            s2.env[h.name] = VOpaque()
                        for s3, o3 in self.run_block(h.body, s2, catching):
                            s3 = s3.copy()
                            s3.exc = st.exc
                            outs.append((s3, o3))
                        taken = True
                        break
                    if any(self.repo.subclass(x, o.exc) for x in hs):
                        raise Unsupported(f"handler for {hs} may or may not catch declared {o.exc}")
                if not taken:
                    outs.append((s1, o))
            else:
                outs.append((s1, o))
        return outs

    # ------------------------------------------------------------------ loops
    def assigned_names(self, stmts):
        names = set()
        heap_fields = set()
        for n in ast.walk(ast.Module(body=list(stmts), type_ignores=[])):
            if isinstance(n, (ast.Assign, ast.AugAssign, ast.AnnAssign)):
                targets = n.targets if isinstance(n, ast.Assign) else [n.target]
                for t in targets:
                    for sub in ast.walk(t):
                        if isinstance(sub, ast.Name) and isinstance(sub.ctx, ast.Store):
                            names.add(sub.id)
                    if isinstance(t, ast.Subscript) and isinstance(t.value, ast.Name):
                        names.add(t.value.id)
                    if isinstance(t, ast.Attribute):
                        heap_fields.add((ast.unparse(t.value), t.attr))
                    if isinstance(t, ast.Subscript) and isinstance(t.value, ast.Attribute):
                        heap_fields.add((ast.unparse(t.value.value), t.value.attr))
            if isinstance(n, ast.Call) and isinstance(n.func, ast.Attribute) and n.func.attr in ("append", "add", "extend", "update", "sort", "pop"):
                if isinstance(n.func.value, ast.Name):
                    names.add(n.func.value.id)
                elif isinstance(n.func.value, ast.Attribute):
                    heap_fields.add((ast.unparse(n.func.value.value), n.func.value.attr))
                elif isinstance(n.func.value, ast.Subscript) and isinstance(n.func.value.value, ast.Name):
                    names.add(n.func.value.value.id)
            if isinstance(n, ast.For):
                for sub in ast.walk(n.target):
                    if isinstance(sub, ast.Name):
                        names.add(sub.id)
        return names, heap_fields

    def havoc(self, st, names, heap_fields):
        c = self.ctx
        s2 = st.copy()
        for n in sorted(names):
            if n in st.env and isinstance(st.env[n], V) and not isinstance(st.env[n], (VOpaque, VExc)):
                s2.env[n] = c.fresh("hv_" + n, ty_of(st.env[n]))
                if isinstance(st.env[n], VDict) and getattr(st.env[n], "default", None):
                    s2.env[n].default = st.env[n].default
        for recv_src, f in sorted(heap_fields):
            recv = st.env.get(recv_src) if recv_src.isidentifier() and recv_src not in names else None
            if isinstance(recv, VRef) and f in FIELDS[recv.cls]:
                # the loop writes this field of one fixed object only: havoc exactly that location
                arr = s2.harr(c, recv.cls, f)
                fresh_val = c.const(f"hv_{recv_src}_{f}", c.sort(FIELDS[recv.cls][f]))
                s2.heap[(recv.cls, f)] = Store(arr, recv.t, fresh_val)
            else:
                for (cls, f2) in list(FIELDS_KEYS()):
                    if f2 == f:
                        arr = s2.harr(c, cls, f2)
                        s2.heap[(cls, f2)] = c.const(f"H_{cls}_{f2}", arr.sort)
        return s2

    def body_touches_heap(self, stmts):
        """The loop body allocates or calls a contracted function that is not pure()."""
        for n in ast.walk(ast.Module(body=list(stmts), type_ignores=[])):
            if isinstance(n, ast.Call):
                q = self.resolve_call(n, None)
                if q is None:
                    continue
                if q.startswith("ctor.") or q == "lib.model_copy":
                    return True
                if q in self.contracts:
                    cn = self.contracts[q]
                    pure = any(isinstance(s_, ast.Expr) and isinstance(s_.value, ast.Call) and isinstance(s_.value.func, ast.Name)
                               and s_.value.func.id == "pure" for s_ in cn.body)
                    if not pure:
                        return True
        return False

    def havoc_heap(self, st):
        c = self.ctx
        s2 = st.copy()
        for cls, f in FIELDS_KEYS():
            arr = st.harr(c, cls, f)
            s2.heap[(cls, f)] = c.const(f"HL_{cls}_{f}", arr.sort)
        for cls in ("Record", "Converter"):
            a0 = st.alloc_arr(c, cls)
            a1 = c.const(f"AL_{cls}", a0.sort)
            x = c.bvar("x", REF_SORT[cls])
            s2.heap[("alloc", cls)] = a1
            s2 = s2.assume(ForAll([x], Implies(Select(a0, x), Select(a1, x))))
        return s2

    def invariant(self, key, env, st, extra):
        inv = self.invariants.get(key)
        if inv is None:
            raise Unsupported(f"loop {key} has no invariant")
        params = [a.arg for a in inv.args.args]
        env2 = {}
        outer = self.loop_stack[-1] if self.loop_stack else {}
        for p in params:
            if p == "_pre":
                continue
            if p in extra:
                env2[p] = extra[p]
            elif p in outer:
                env2[p] = outer[p]
            elif p in env:
                env2[p] = env[p]
            else:
                raise Unsupported(f"invariant of {key} mentions unknown variable {p}")
        body = [s for s in inv.body if not (isinstance(s, ast.Expr) and isinstance(s.value, ast.Constant))]
        if len(body) != 1 or not isinstance(body[0], ast.Return):
            raise Unsupported("invariant must be a single return")
        self.in_spec += 1
        try:
            # _pre(e): e evaluated in the function's pre-state over its parameters
            pre_env = dict(self.fn_pre_env)
            pre_env.update({k: v for k, v in env2.items() if k not in pre_env})
            return truthy(self.ctx, self.ev_post(body[0].value, env2, st, self.fn_pre, marker="_pre", pre_env=pre_env))
        finally:
            self.in_spec -= 1

    def loop_key(self, s):
        """Loops are numbered in source order within the function (stable under path splitting)."""
        ids = getattr(self, "_loop_ids", None)
        if ids is None or ids[0] is not self.cur_func_node:
            order = [n for n in ast.walk(self.cur_func_node) if isinstance(n, (ast.For, ast.While))]
            order.sort(key=lambda n: (n.lineno, n.col_offset))
            self._loop_ids = (self.cur_func_node, {id(n): k for k, n in enumerate(order)})
            ids = self._loop_ids
        return (self.cur_func, ids[1][id(s)])

    def eval_iterable(self, node, st, catching):
        """The iterated collection as a list view (lists; itertools.chain of lists; dict/.items() via a key list)."""
        c = self.ctx
        if isinstance(node, ast.Call) and isinstance(node.func, ast.Attribute) and node.func.attr == "chain" and not node.keywords:
            outs = [(st, None)]
            for a in node.args:
                nxt = []
                for s1, acc in outs:
                    if isinstance(acc, Outcome):
                        nxt.append((s1, acc))
                        continue
                    for s2, v in self.cev(a, s1, catching):
                        if isinstance(v, Outcome):
                            nxt.append((s2, v))
                        else:
                            if isinstance(v, VOpt):
                                v = v.val
                            if not isinstance(v, VList):
                                raise Unsupported("itertools.chain over non-lists")
                            from .symex import concat_lists
                            nxt.append((s2, v if acc is None else concat_lists(c, acc, v)))
                outs = nxt
            return outs
        if isinstance(node, ast.Call) and isinstance(node.func, ast.Attribute) and node.func.attr in ("items", "keys", "values") and not node.args:
            outs = []
            for s1, d in self.cev(node.func.value, st, catching):
                if isinstance(d, Outcome):
                    outs.append((s1, d))
                    continue
                outs.append((s1, self.dict_as_list(d, node.func.attr)))
            return outs
        outs = []
        for s1, v in self.cev(node, st, catching):
            if isinstance(v, VDict):
                v = self.dict_as_list(v, "keys")
            outs.append((s1, v))
        return outs

    def dict_as_list(self, d, what):
        """Iteration order of a dict: some list of its distinct keys (order unspecified = arbitrary but fixed)."""
        c = self.ctx
        if not isinstance(d, VDict):
            raise Unsupported("iteration over .items() of " + type(d).__name__)
        c.trusted.add("dict iteration visits each key exactly once, in some order (the order itself is left unspecified)")
        keys = c.fresh("keys", ("list", d.kty))
        i, j = c.bvar("i", "Int"), c.bvar("j", "Int")
        rng = lambda t: And(Le(Int(0), t), Lt(t, keys.n))
        c.assumptions.append(ForAll([i], Implies(rng(i), d.has(keys.at(i)))))
        c.assumptions.append(ForAll([i, j], Implies(And(rng(i), rng(j), Not(Eq(i, j))), Not(veq(c, keys.at(i), keys.at(j))))))
        k = c.bvar("k", c.sort(d.kty))
        kv = c.wrap(k, d.kty)
        idx = c.fun("keyidx", [c.sort(d.kty)], "Int")
        ik = app(idx, k, sort="Int")
        c.assumptions.append(ForAll([k], Implies(d.has(kv), And(rng(ik), veq(c, keys.at(ik), kv)))))
        if what == "keys":
            return keys
        if what == "values":
            return VList(keys.n, lambda t: d.get(keys.at(t)), d.vty)
        return VList(keys.n, lambda t: VTuple([keys.at(t), d.get(keys.at(t))]), ("tuple", (d.kty, d.vty), None))

    def st_For(self, s, st, catching):
        c = self.ctx
        if s.orelse:
            raise Unsupported("for/else")
        key = self.loop_key(s)
        outs = []
        for s0, xs in self.eval_iterable(s.iter, st, catching):
            if isinstance(xs, Outcome):
                outs.append((s0, xs))
                continue
            if isinstance(xs, VOpt):
                xs = xs.val
            if not isinstance(xs, VList):
                raise Unsupported(f"for over {type(xs).__name__}")
            # freeze the iterated list (Python iterates the live list; bodies here never mutate it — checked)
            names, heap_fields = self.assigned_names(s.body)
            # empty container literals take their element type from the invariant's parameter annotations
            inv_node = self.invariants.get(key)
            if inv_node is not None:
                for a in inv_node.args.args:
                    if a.annotation is not None and a.arg in s0.env and getattr(s0.env[a.arg], "empty", False):
                        ty = parse_ty(ast.unparse(a.annotation))
                        if ty[0] == "list" and isinstance(s0.env[a.arg], VList):
                            junk = c.fresh("junk", ty[1])
                            s0 = s0.copy()
                            s0.env[a.arg] = VList(Int(0), lambda i, junk=junk: junk, ty[1])
                        if ty[0] == "dict" and isinstance(s0.env[a.arg], VDict):
                            junk = c.fresh("junk", ty[2])
                            nd = VDict(lambda k_: FALSE, lambda k_, junk=junk: junk, ty[1], ty[2])
                            nd.empty = True
                            nd.default = getattr(s0.env[a.arg], "default", None)
                            s0 = s0.copy()
                            s0.env[a.arg] = nd
            w = self.where(s)
            c.oblige(f"{w}:loop{key[1]}:invariant holds on entry", "invariant-init", s0.pc,
                     self.invariant(key, s0.env, s0, {"_i": VInt(Int(0)), "_xs": xs}), w)
            # arbitrary iteration
            heap_all = self.body_touches_heap(s.body)
            h = self.havoc(s0, names, heap_fields)
            if heap_all:
                h = self.havoc_heap(h)
            i = c.const("it", "Int")
            h = h.assume(And(Le(Int(0), i), Lt(i, xs.n)))
            h = h.assume(self.invariant(key, h.env, h, {"_i": VInt(i), "_xs": xs}))
            h = self.assign_target(s.target, xs.at(i), h)
            self.loop_stack.append({"_outer_i": VInt(i), "_outer_xs": xs})
            try:
                body_outs = self.run_block(s.body, h, catching)
            finally:
                self.loop_stack.pop()
            for s1, o in body_outs:
                if o.kind in ("normal", "continue"):
                    c.oblige(f"{w}:loop{key[1]}:invariant preserved", "invariant-step", s1.pc,
                             self.invariant(key, s1.env, s1, {"_i": VInt(Add(i, Int(1))), "_xs": xs}), w)
                elif o.kind == "break":
                    outs.append((s1, Outcome("normal")))
                else:
                    outs.append((s1, o))
            # exit
            e = self.havoc(s0, names, heap_fields)
            if heap_all:
                e = self.havoc_heap(e)
            e = e.assume(self.invariant(key, e.env, e, {"_i": VInt(xs.n), "_xs": xs}))
            outs.append((e, Outcome("normal")))
        return outs

    def st_Continue(self, s, st, catching):
        return [(st, Outcome("continue"))]

    def st_Break(self, s, st, catching):
        return [(st, Outcome("break"))]


def FIELDS_KEYS():
    for cls, fs in FIELDS.items():
        for f in fs:
            yield cls, f
