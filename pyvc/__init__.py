"""pyvc: contract-based deductive verification of Python functions read from /repo on every run."""
