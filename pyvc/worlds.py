"""Small-scope worlds for the bounded stand-ins / the native contract monitor (DESIGN Appendix C).

Everything produced here is labelled *bounded* in the evidence and never counted as proved.
"""
from __future__ import annotations

import itertools
import random

CURATED = [
    # (records as (prefix, uri_prefix, psyn, usyn, pattern), delimiter)
    ([("a", "u/", [], [], None)], ":"),
    ([("a", "u/", ["A"], ["U/"], None)], ":"),
    ([("a", "u/", ["b"], ["v#"], "^\\d+$"), ("c", "u/a_", [], ["u/a"], None)], ":"),
    ([("", "u/", [], [], None), ("a", "u/a_", ["ab"], [], None)], ":"),
    ([("a", "", [], [], None), ("b", "u/", [], [], None)], ":"),
    ([("a", "u/", [""], [""], None)], ":"),
    ([("a", "u", [], ["u/"], None), ("b", "u/a", ["B"], ["u/a_"], None), ("c", "v#", [], [], None)], ":"),
    ([("a", "u/", ["b"], [], None), ("c", "w/", [], [], None)], "/"),
    ([("a", "u/", ["b"], [], None), ("c", "w::", [], [], None)], "::"),
    ([("a:", "u/", ["b"], [], None)], ":"),
    ([("a", "http://x/", ["GO"], ["GO:"], None), ("http", "v/", [], [], None)], ":"),
    ([("a", "a:", [], ["u/"], None), ("b", "a:b", [], [], None)], ":"),
    ([], ":"),
    ([("a", "u/", ["a1", "a2"], ["u1/", "u2/"], None), ("b", "v/", ["b1"], ["v1/"], "x")], ":"),
    ([("é", "ü/", ["É"], [], None)], ":"),
    ([("GO", "u/", [], [], None), ("go", "v/", ["Go"], ["V/"], None)], ":"),
]

PFX_POOL = ["a", "A", "ab", "b", "", "c", "a1"]
URI_POOL = ["u/", "u/a_", "U/", "u", "v#", "", "u/a", "w:"]
DELIMS = [":", "/", "::"]


def make_converter(spec_, delimiter=":", strict=True):
    from curies.api import Converter, Record
    recs = [Record(prefix=p, uri_prefix=u, prefix_synonyms=list(ps), uri_prefix_synonyms=list(us), pattern=pat)
            for p, u, ps, us, pat in spec_]
    return Converter(recs, delimiter=delimiter, strict=strict)


def describe_converter(c):
    if not hasattr(c, "records") or not hasattr(c, "delimiter"):
        return {"blank": True, "delimiter": ":", "records": []}
    return {
        "delimiter": c.delimiter,
        "records": [
            (r.prefix, r.uri_prefix, list(r.prefix_synonyms), list(r.uri_prefix_synonyms), r.pattern) for r in c.records
        ],
    }


def random_record_spec(rng):
    p = rng.choice(PFX_POOL)
    u = rng.choice(URI_POOL)
    ps = [x for x in rng.sample(PFX_POOL, rng.choice([0, 0, 1, 2])) if x != p]
    us = [x for x in rng.sample(URI_POOL, rng.choice([0, 0, 1, 2])) if x != u]
    pat = rng.choice([None, None, None, "^\\d+$", ""])
    return (p, u, ps, us, pat)


def converter_specs(n_random, seed, max_records=3):
    """Curated tricky converters plus n_random seeded random ones (only those strict construction accepts)."""
    out = [(s, d) for s, d in CURATED]
    rng = random.Random(seed)
    tries = 0
    while len(out) < len(CURATED) + n_random and tries < n_random * 50:
        tries += 1
        k = rng.choice([1, 2, 2, 3][: max_records + 1])
        recs = [random_record_spec(rng) for _ in range(k)]
        d = rng.choice([":", ":", ":", "/", "::"])
        names = [x for r in recs for x in [r[0]] + r[2]]
        unames = [x for r in recs for x in [r[1]] + r[3]]
        if len(set(names)) != len(names) or len(set(unames)) != len(unames):
            continue
        out.append((recs, d))
    return out


def converters(n_random, seed, max_records=3):
    for s, d in converter_specs(n_random, seed, max_records):
        try:
            yield make_converter(s, d)
        except Exception:
            continue


def prefix_pool(c):
    pool = {"", "zz", "a", "A"}
    for r in c.records:
        for p in [r.prefix] + list(r.prefix_synonyms):
            pool.update({p, p.upper(), p.lower(), p + "x", p[:-1]})
    return sorted(pool)


def ident_pool(c):
    d = c.delimiter
    return ["", "1", "x" + d + "y", d, "/#é "]


def uri_pool(c):
    pool = {"", "zz", "u", "http://nope", " ", " zz ", "zz\n", "nope%2Fx", "100%", "%d", "//[", "http://[x"}
    for r in c.records:
        for u in [r.uri_prefix] + list(r.uri_prefix_synonyms):
            pool.update({u, u + "1", u + "x/y", u[:-1], u[:-1] + "?", u.upper() + "1", u + c.delimiter + "1", " " + u + "1", u + "1 ",
                         u + "x" + u + "1", u + u, u + "100%", u + "%s"})
    return sorted(pool)


def curie_pool(c):
    d = c.delimiter
    pool = {"", "nodelim", d, d + "x", "zz" + d + "1", " ", " zz" + d + "1 ", "zz" + d + "1\n"}
    for p in prefix_pool(c):
        for i in ["", "1", "x" + d + "y", d, d + "1", d[:1] + "1"]:
            pool.add(p + d + i)
        pool.add(p)
    pool.update({"zz" + d + "%s", "%" + d + "1"})
    return sorted(pool)


STR_PARAM_POOLS = {
    "uri": uri_pool,
    "curie": curie_pool,
    "prefix": prefix_pool,
    "standard_prefix": prefix_pool,
    "identifier": ident_pool,
}


def mixed_pool(c):
    return sorted(set(uri_pool(c)) | set(curie_pool(c)))
