"""Glue between the CLI and the symbolic engine: build VCs for one contract / lemma from the current
/repo source, emit SMT-LIB, run the solver portfolio in parallel, classify the answers."""
from __future__ import annotations

import ast
import hashlib
import json
import os
import time
from concurrent.futures import ThreadPoolExecutor

from . import loader, smt, spec
from .execu import Executor
from .smt import T, TRUE, FALSE, And, Or, Not, Implies, Eq
from .symex import Ctx, Repo, State, Unsupported, VNone, VOpt, parse_ty, Outcome, truthy, REF_SORT

BASELINE = os.path.join(loader.ROOT, "baseline", "sources.json")


class Demoted(Exception):
    """The function uses a construct outside the verifier's subset: bounded stand-in decides."""


class ProofResult:
    def __init__(self):
        self.n_obligations = 0
        self.n_discharged = 0
        self.failed = []
        self.trusted = set()
        self.by_backend = {}
        self.samples = []
        self.source_changed = False
        self.all_labels = []
        self.info = {}

    def summary(self):
        d = {"obligations": self.n_obligations, "discharged": self.n_discharged}
        d.update(self.info)
        return d


_repo_cache = {}


def get_repo():
    root = loader.REPO
    if root not in _repo_cache:
        _repo_cache[root] = Repo(root)
    return _repo_cache[root]


def baseline_hashes():
    if os.path.exists(BASELINE):
        return json.load(open(BASELINE))
    return {}


def src_hash(text):
    return hashlib.sha1(ast.dump(ast.parse(text.strip() if not text.startswith(" ") else "if 1:\n" + text)).encode()).hexdigest()[:16]


def func_hash(repo, q):
    node = repo.funcs[q][0]
    return hashlib.sha1(ast.dump(node).encode()).hexdigest()[:16]


# ------------------------------------------------------------------------------------------
def preamble(ctx, drop=()):
    lines = ["(set-logic ALL)", smt.STR_SIG_U, "(declare-sort Rec 0)", "(declare-sort Conv 0)", "(declare-sort Msg 0)"]
    lines += list(ctx.sort_decls.values())
    if getattr(ctx, "need_join_sorted", False):
        ls = ctx.sort(("list", "str"))
        lines = [l for l in lines]
        lines += list(v for k, v in ctx.sort_decls.items() if v not in lines)
        lines.append(f"(declare-fun join_sorted (Str {ls}) Str)")
        lines.append(f"(assert (forall ((a {ls}) (b {ls})) (! (=> (and (= (len_{ls} a) (len_{ls} b)) (forall ((i Int)) (=> (and (<= 0 i) (< i (len_{ls} a))) "
                     f"(= (select (items_{ls} a) i) (select (items_{ls} b) i))))) (= (join_sorted empty a) (join_sorted empty b))) :pattern ((join_sorted empty a) (join_sorted empty b)))))")
    lits = list(ctx.lits.items())
    for s, t in lits:
        lines.append(f"(declare-const {t.s} Str)")
        lines.append(f"(assert (= (slen {t.s}) {len(s)}))")
    if lits:
        lines.append("(assert (distinct empty " + " ".join(t.s for _, t in lits) + "))")
    allv = lits + [("", T("empty", "Str"))]
    for a, ta in allv:
        for b, tb in allv:
            if ta.s == tb.s:
                continue
            lines.append(f"(assert ({'' if a.startswith(b) else 'not ('}prefixof {tb.s} {ta.s}{'' if a.startswith(b) else ')'}))")
            lines.append(f"(assert ({'' if b in a else 'not ('}contains {ta.s} {tb.s}{'' if b in a else ')'}))")
    lines.append(smt.str_axioms_text())
    lines += ctx.decls
    for a in ctx.assumptions:
        if ctx.tags.get(id(a)) in drop:
            continue
        lines.append(f"(assert {a.s})")
    return "\n".join(lines)


_TOK = None


def strip_stores(text):
    """Replace every (store A i v) by A (recursively): the skeleton of a formula up to heap updates."""
    out = []
    i, n = 0, len(text)

    def sexpr_end(k):
        # k at the start of an s-expression (atom or parenthesised); returns index just past it
        if text[k] != "(":
            while k < n and text[k] not in " ()":
                k += 1
            return k
        d = 0
        while k < n:
            if text[k] == "(":
                d += 1
            elif text[k] == ")":
                d -= 1
                if d == 0:
                    return k + 1
            k += 1
        return n
    while i < n:
        if text.startswith("(store ", i):
            a0 = i + 7
            a1 = sexpr_end(a0)
            end = sexpr_end(i)
            out.append(strip_stores(text[a0:a1]))
            i = end
        else:
            out.append(text[i])
            i += 1
    return "".join(out)


def _tokens(text):
    import collections
    import re as _re
    return collections.Counter(_re.findall(r"[A-Za-z_][A-Za-z_0-9.]*", _re.sub(r"![0-9]+", "", strip_stores(text))))


def slim_hyps(ob, small=1200, sim=0.6):
    """Goal-directed selection of hypotheses (dropping hypotheses is always sound): keep the small ones and those
    that look like the goal (same shape over another heap version) — the typical 'this fact survives that
    heap update' obligation then becomes a small query."""
    g = _tokens(ob.goal.s)
    keep = []
    seen = set()
    for h in ob.hyps:
        if h.s in seen:
            continue
        seen.add(h.s)
        if len(h.s) < small or getattr(h, "conj", None) == "cut":
            keep.append(h)
            continue
        t = _tokens(h.s)
        inter = sum((t & g).values())
        union = sum((t | g).values())
        if union and inter / union >= sim:
            keep.append(h)
    return keep


_VER = None


def _versions(text):
    import re as _re
    return set(_re.findall(r"\b(?:H|HL|A|AL)_\w+![0-9]+", text))


def live_hyps(ob, base=None):
    """Drop large hypotheses that talk about heap versions unrelated to the goal (facts about states that a later
    loop havoc / call has replaced). Versions related to the goal: those in it, closed twice under small linking facts."""
    hyps = base if base is not None else ob.hyps
    V = _versions(ob.goal.s)
    for _ in range(2):
        for h in hyps:
            if len(h.s) < 900:
                vs = _versions(h.s)
                if vs & V:
                    V |= vs
    out = []
    for h in hyps:
        if len(h.s) < 300 or _versions(h.s) <= V:
            out.append(h)
    return out


def ladder_hyps(ob, k, small=250):
    """The k hypotheses most similar to the goal (store-insensitive token similarity), the cut lemmas and the tiny ones."""
    g = _tokens(ob.goal.s)
    scored = []
    seen = set()
    for h in ob.hyps:
        if h.s in seen:
            continue
        seen.add(h.s)
        t = _tokens(h.s)
        union = sum((t | g).values())
        scored.append((sum((t & g).values()) / union if union else 0.0, h))
    top = {id(h) for _, h in sorted(scored, key=lambda x: -x[0])[:k]}
    return [h for _, h in scored if id(h) in top or len(h.s) < small or getattr(h, "conj", None) == "cut"]


def query_text(ctx, ob, slim=False, drop=()):
    parts = [preamble(ctx, drop)]
    seen = set()
    hyps = ob.hyps
    if isinstance(slim, tuple) and slim[0] == "ladder":
        hyps = ladder_hyps(ob, slim[1])
    elif slim == "live":
        hyps = live_hyps(ob)
    elif slim == "live-slim":
        hyps = live_hyps(ob, slim_hyps(ob, small=2500, sim=0.5))
    elif slim == "tight":
        # "this fact survives that heap update": the same-shaped hypotheses plus the small ones only
        hyps = slim_hyps(ob, small=450, sim=0.85)
    elif slim == 2:
        hyps = slim_hyps(ob, small=4000, sim=0.45)
    elif slim:
        hyps = slim_hyps(ob)
    for h in hyps:
        if h.s in seen:
            continue
        seen.add(h.s)
        parts.append(f"(assert {h.s})")
    parts.append(f"(assert (not {ob.goal.s}))")
    parts.append("(check-sat)")
    return "\n".join(parts) + "\n"


def check_layouts(repo):
    """The engine's tables of tuple layouts must agree with the NamedTuple declarations in the current source."""
    from .symex import TUPLE_FIELDS
    for name, fields in TUPLE_FIELDS.items():
        cnode = repo.classes.get(("api", name))
        if cnode is None:
            raise Demoted(f"class {name} not found in curies.api")
        declared = [n.target.id for n in cnode.body if isinstance(n, ast.AnnAssign) and isinstance(n.target, ast.Name)]
        if declared != list(fields) or [b.id for b in cnode.bases if isinstance(b, ast.Name)] != ["NamedTuple"]:
            raise Demoted(f"layout of {name} is {declared}, the verifier's table says {list(fields)}")


def build_engine(module="api"):
    loader.load()
    repo = get_repo()
    check_layouts(repo)
    ctx = Ctx()
    copts = {q: ci.opts for q, ci in spec.CONTRACTS.items()}
    eng = Executor(repo, ctx, loader.HELPERS, loader.CONTRACT_AST, copts, invariants=loader.INVARIANT_AST)
    eng.module = module
    return repo, ctx, eng


def gen_contract_vcs(q, carve_outs=()):
    repo, ctx, eng = build_engine("api")
    ckey = q
    q = q.split("#")[0]          # "qualname#tag": an alternative (self-test) contract for the same function
    if q not in repo.funcs:
        raise Demoted(f"function {q} not found in the repository source")
    fnode, mod, cls = repo.funcs[q]
    eng.module = mod
    # names that the verifier reads as third-party predicates must still denote them in the function's module
    if any(isinstance(n_, ast.Name) and n_.id == "_is_valid_uri" for n_ in ast.walk(fnode)):
        mtree = repo.modules.get(mod)
        imported = any(isinstance(n_, ast.ImportFrom) and n_.module == "rdflib.term"
                       and any(a_.name == "_is_valid_uri" and a_.asname is None for a_ in n_.names) for n_ in getattr(mtree, "body", []))
        redefined = any((isinstance(n_, (ast.FunctionDef, ast.ClassDef)) and n_.name == "_is_valid_uri")
                        or (isinstance(n_, ast.Assign) and any(isinstance(t_, ast.Name) and t_.id == "_is_valid_uri" for t_ in n_.targets))
                        for n_ in getattr(mtree, "body", []))
        if not imported or redefined:
            raise Demoted("_is_valid_uri is no longer rdflib.term._is_valid_uri in module " + mod)
    cnode = loader.CONTRACT_AST[ckey]
    if ckey != q:
        eng.contracts = dict(eng.contracts)
        eng.contracts[q] = cnode
    cparams = [(a.arg, ast.unparse(a.annotation) if a.annotation is not None else None) for a in cnode.args.args + cnode.args.kwonlyargs]
    fa = fnode.args
    fparams = [a.arg for a in fa.posonlyargs + fa.args + fa.kwonlyargs]
    if any(isinstance(d, ast.Name) and d.id == "classmethod" for d in fnode.decorator_list):
        fparams = fparams[1:]
    kwarg_name = fa.kwarg.arg if fa.kwarg is not None else None
    cnames = [p for p, _ in cparams]
    if cnames[: len(fparams)] != fparams or (len(cnames) > len(fparams) and kwarg_name is None):
        raise Demoted(f"parameters of {q} are {fparams}, the contract was written for {cnames}")
    binding = {}
    for p, ann in cparams:
        if ann is None:
            raise Demoted(f"contract parameter {p} has no type")
        binding[p] = ctx.fresh("p_" + p, parse_ty(ann))
    env0 = dict(binding)
    if kwarg_name is not None:
        # the contract names the keyword arguments that are forwarded (e.g. delimiter, strict)
        from .symex import VKwargs
        env0[kwarg_name] = VKwargs({p: binding[p] for p in cnames[len(fparams):]})
    st0 = assume_params_allocated(ctx, State(env=env0), binding)
    eng.cur_class = cls
    eng.cur_func = q
    eng.cur_func_node = fnode
    eng.loop_counter = 0
    parts = eng.contract_parts(q, binding, st0)
    st = st0
    for t, src in parts["requires"]:
        st = st.assume(t)
    for co in carve_outs:
        eng.in_spec += 1
        try:
            t = truthy(ctx, eng.ev(ast.parse(co, mode="eval").body, dict(binding), st0))
        finally:
            eng.in_spec -= 1
        st = st.assume(Not(t))
    pre = st
    eng.fn_pre = st0
    eng.fn_pre_env = dict(binding)
    outs = eng.run_block(fnode.body, st)
    n_paths = 0
    canary_paths = []
    for s1, o in outs:
        n_paths += 1
        where = f"{q}:exit{n_paths}"
        if o.kind in ("normal", "return"):
            v = o.value if o.kind == "return" else VNone()
            for names, when, src in parts["raises"]:
                ctx.oblige(f"{where}:normal return only when not [{src}]", "no-missed-raise", s1.pc, Not(when), where)
            p2 = eng.contract_parts(q, binding, s1, result=v, pre_state=st0)
            for t, src in p2["ensures"]:
                ctx.oblige(f"{where}:ensures {src}", "postcondition", s1.pc, t, where)
            locs = [] if parts["pure"] else eng.modifies_locations(q, binding, st0)
            for fname, cond in eng.frame_condition(locs, st0, s1):
                ctx.oblige(f"{where}:frame: only modifies(...) locations of {fname} change", "frame", s1.pc, cond, where)
            canary_paths.append(s1)
        elif o.kind == "raise":
            allowed = [when for names, when, src in parts["raises"] if any(repo.subclass(o.exc, n) for n in names)]
            if any(repo.subclass(o.exc, n) for n in parts.get("may_raise", ())):
                allowed.append(TRUE)
            ctx.oblige(f"{where}:raise {o.exc} admitted by a raises-clause", "exceptional-exit", s1.pc, Or(*allowed), where)
            if parts["pure"] or any(u for *_x, u in parts.get("raises_unchanged", [])) or any(repo.subclass(o.exc, n) for n in parts.get("may_unchanged", ())):
                for fname, cond in eng.frame_condition([], st0, s1):
                    ctx.oblige(f"{where}:rejected call leaves {fname} unchanged", "frame", s1.pc, cond, where)
        else:
            raise Demoted(f"{o.kind} outside a loop")
    return repo, ctx, eng, pre, canary_paths, n_paths


def assume_params_allocated(ctx, st0, binding):
    """Parameters are allocated objects; converters' record lists hold allocated records."""
    from .symex import VRef, VList, VOpt
    from .smt import ForAll, Implies, And, Le, Lt, Int, Select
    for p_, v_ in binding.items():
        vv = v_.val if isinstance(v_, VOpt) else v_
        if isinstance(vv, VRef):
            st0 = st0.assume(Implies(Not(v_.isnone), st0.is_alloc(ctx, vv)) if isinstance(v_, VOpt) else st0.is_alloc(ctx, vv))
        elif isinstance(vv, VList) and vv.ety in REF_SORT:
            i_ = ctx.bvar("i", "Int")
            st0 = st0.assume(ForAll([i_], Implies(And(Le(Int(0), i_), Lt(i_, vv.n)), st0.is_alloc(ctx, vv.at(i_)))))
    cb = ctx.bvar("c", "Conv")
    ib = ctx.bvar("i", "Int")
    recs_of = ctx.wrap(Select(st0.harr(ctx, "Converter", "records"), cb), ("list", "Record"))
    return st0.assume(ForAll([cb, ib], Implies(And(Select(st0.alloc_arr(ctx, "Converter"), cb), Le(Int(0), ib), Lt(ib, recs_of.n)),
                                               Select(st0.alloc_arr(ctx, "Record"), recs_of.at(ib).t)), pats=[[recs_of.at(ib).t]]))


def gen_lemma_vcs(name):
    repo, ctx, eng = build_engine("api")
    lnode = loader.LEMMA_AST[name]
    binding = {}
    for a in lnode.args.args:
        binding[a.arg] = ctx.fresh("p_" + a.arg, parse_ty(ast.unparse(a.annotation)))
    st0 = assume_params_allocated(ctx, State(env=dict(binding)), binding)
    eng.cur_func = "lemma:" + name
    eng.cur_func_node = lnode
    eng.loop_counter = 0
    eng.module = "api"
    eng.fn_pre = st0
    eng.fn_pre_env = dict(binding)
    outs = eng.run_block(lnode.body, st0)
    canary_paths = []
    for s1, o in outs:
        if o.kind == "raise":
            ctx.oblige(f"lemma {name}: no exception ({o.exc})", "exceptional-exit", s1.pc, FALSE, name)
        else:
            canary_paths.append(s1)
    return repo, ctx, eng, st0, canary_paths, len(outs)


def discharge(ctx, obligations, timeout, order, workers=16):
    def work(ob):
        text = query_text(ctx, ob)
        if os.environ.get("PYVC_DUMP"):
            os.makedirs(os.environ["PYVC_DUMP"], exist_ok=True)
            import re as _re
            open(os.path.join(os.environ["PYVC_DUMP"], _re.sub(r"[^A-Za-z0-9_.-]+", "_", ob.label)[:90] + "-" + hashlib.sha1((ob.label + text).encode()).hexdigest()[:6] + ".smt2"), "w").write(text)
            open(os.path.join(os.environ["PYVC_DUMP"], "INDEX.txt"), "a").write(hashlib.sha1(ob.label.encode()).hexdigest()[:6] + " " + ob.label + "\n")
        r = smt.solve(text, timeout, order=order)
        return ob, r
    with ThreadPoolExecutor(max_workers=workers) as ex:
        return list(ex.map(work, obligations))


def prove_regular(name, tier):
    """Layer R (curies.w3c): one language-equality obligation per function."""
    from . import regular
    t0 = time.time()
    repo = get_repo()
    loader.load()
    try:
        label, text, param = regular.build_obligation(repo, loader, name)
    except Unsupported as e:
        raise Demoted(str(e))
    res = ProofResult()
    timeout = 60 if tier == "quick" else 180
    r = smt.solve(text, timeout, order=("z3-new", "z3", "cvc5"), stagger=0.0)
    from .symex import Obligation
    ob = Obligation(label, "language-equality", [], TRUE, name)
    ob.status, ob.solver, ob.solver_output = r["result"], r["solver"], r["tried"]
    res.n_obligations = 1
    for t in r["tried"]:
        a = res.by_backend.setdefault(t["solver"], [0, 0.0])
        a[1] += t["s"]
    if r["result"] == "unsat":
        res.n_discharged = 1
        res.by_backend[r["solver"]][0] += 1
    else:
        ob.refuted = r["result"] == "sat"
        if ob.refuted:
            m = __import__("re").search(r'\(\(s ("(?:[^"]|"")*")\)\)', r["raw"])
            if m:
                ob.counterexample = {param: regular.parse_smt_string(m.group(1))}
        res.failed.append(ob)
    base = baseline_hashes()
    h = func_hash(repo, name)
    res.source_changed = name in base and base[name] != h
    res.trusted = {"Python's re module decides membership in the regular language translated from re._parser's parse tree (no back-references / look-around occur; the translator rejects them)",
                   "solver character range stops at U+2FFFF; whitespace classes (str.isspace, str.strip, \\s) are enumerated from the running interpreter and checked to agree and to lie below that bound"}
    res.info.update({"source_hash": h, "layer": "R (regular-language equality)", "prove_s": round(time.time() - t0, 2),
                     "undischarged": [{"label": ob.label, "status": ob.status}] if res.failed else []})
    res.samples.append({"obligation": label, "kind": "language-equality", "result": r["result"], "solver": r["solver"], "s": round(r["s"], 3), "goal_smt": text[:400]})
    return res


def prove_item(kind, name, tier, seed, known=()):
    if kind == "contract" and name.startswith("w3c."):
        return prove_regular(name, tier)
    t0 = time.time()
    carve = [k["carve_out"] for k in known]
    try:
        if kind == "contract":
            repo, ctx, eng, pre, canary_paths, n_paths = gen_contract_vcs(name, carve)
        else:
            repo, ctx, eng, pre, canary_paths, n_paths = gen_lemma_vcs(name)
    except Unsupported as e:
        raise Demoted(str(e))
    except (Demoted, KeyboardInterrupt):
        raise
    except Exception as e:      # an AST shape the engine did not anticipate: treat as outside the subset, visibly
        raise Demoted(f"engine error ({type(e).__name__}: {e}) — treated as a construct outside the subset")
    res = ProofResult()
    res.trusted = set(ctx.trusted)
    timeout = int(os.environ.get("PYVC_TIMEOUT", "60" if tier == "quick" else "150"))
    order = ("z3-new", "z3", "cvc5")
    from .symex import Obligation
    canaries = [Obligation(f"{name}:canary:precondition satisfiable", "canary", pre.pc, FALSE, name)]
    for s1 in canary_paths[: (3 if tier == "quick" else 6)]:
        canaries.append(Obligation(f"{name}:canary:return path reachable", "canary", s1.pc, FALSE, name))

    def work(ob):
        text = query_text(ctx, ob)
        if os.environ.get("PYVC_DUMP"):
            os.makedirs(os.environ["PYVC_DUMP"], exist_ok=True)
            import re as _re
            open(os.path.join(os.environ["PYVC_DUMP"], _re.sub(r"[^A-Za-z0-9_.-]+", "_", ob.label)[:90] + "-" + hashlib.sha1((ob.label + text).encode()).hexdigest()[:6] + ".smt2"), "w").write(text)
            open(os.path.join(os.environ["PYVC_DUMP"], "INDEX.txt"), "a").write(hashlib.sha1(ob.label.encode()).hexdigest()[:6] + " " + ob.label + "\n")
        if ob.kind == "canary":
            return ob, smt.solve(text, 2, order=("z3-new",))
        alts = [("slim", query_text(ctx, ob, slim=True))]
        if len(ob.hyps) > 30:
            alts.append(("slim2", query_text(ctx, ob, slim=2)))
            alts.append(("tight", query_text(ctx, ob, slim="tight")))
        if len(ob.hyps) > 90:
            alts.append(("live", query_text(ctx, ob, slim="live")))
            alts.append(("live-slim", query_text(ctx, ob, slim="live-slim")))
        if ctx.tags:
            # the two halves of a comprehension characterisation (element -> source, source -> element) feed each
            # other's triggers; most obligations need only one of them
            alts.append(("no-cover", query_text(ctx, ob, drop=("cover",))))
            alts.append(("no-elem", query_text(ctx, ob, drop=("elem",))))
        r = smt.solve(text, timeout, order=order, alts=alts)
        return ob, r
    # declared-partial items: obligations known to be open on the baseline are not retried in the quick tier
    skip = set()
    if kind == "contract" and tier == "quick":
        ci = spec.CONTRACTS.get(name)
        if ci is not None and ci.opts.get("partial"):
            import re as _re
            pb = os.path.join(loader.ROOT, "baseline", "partial.json")
            base_ok = set(json.load(open(pb)).get(name, [])) if os.path.exists(pb) else None
            if base_ok:
                skip = {ob.label for ob in ctx.obligations if _re.sub(r":\d+:", ":", ob.label) not in base_ok}
    todo = [ob for ob in ctx.obligations if ob.label not in skip]
    with ThreadPoolExecutor(max_workers=int(os.environ.get("PYVC_WORKERS", "4"))) as ex:
        allres = list(ex.map(work, todo + canaries))
    for ob in ctx.obligations:
        if ob.label in skip:
            allres.append((ob, {"result": "open-on-baseline", "solver": None, "s": 0.0, "tried": []}))
    results = [(ob, r) for ob, r in allres if ob.kind != "canary"]
    res.all_labels = [ob.label for ob in ctx.obligations]
    res.n_obligations = len(ctx.obligations) + len(ctx.trivial)
    res.n_discharged = len(ctx.trivial)
    if ctx.trivial:
        res.by_backend["syntactic-identity"] = [len(ctx.trivial), 0.0]
    base = baseline_hashes()
    if kind == "contract":
        h = func_hash(repo, name)
        res.info["source_hash"] = h
        res.source_changed = name in base and base[name] != h
    res.times = {}
    for ob, r in results:
        ob.status = r["result"]
        ob.solver = r["solver"]
        ob.seconds = r["s"]
        res.times[ob.label] = r["s"]
        ob.solver_output = r["tried"]
        for t in r["tried"]:
            a = res.by_backend.setdefault(t["solver"], [0, 0.0])
            a[1] += t["s"]
        if r["result"] == "unsat":
            res.n_discharged += 1
            res.by_backend[r["solver"]][0] += 1
        else:
            ob.refuted = r["result"] == "sat"
            res.failed.append(ob)
    # vacuity: the precondition must be satisfiable and at least one normal exit must be reachable
    # (individual dead paths are legitimate, e.g. `if norm_identifier is None` in parse_curie)
    # solver instability is not a verdict: on UNCHANGED source, obligations left open by the parallel pass are retried
    # one at a time with twice the budget and every configuration started at once
    if res.failed and not res.source_changed and kind in ("contract", "lemma") and len(res.failed) <= 6 and not os.environ.get("PYVC_NO_RETRY") \
            and not (kind == "contract" and spec.CONTRACTS.get(name) is not None and spec.CONTRACTS[name].opts.get("partial")):
        still = []
        for ob in res.failed:
            text = query_text(ctx, ob)
            alts = [("slim", query_text(ctx, ob, slim=True)), ("tight", query_text(ctx, ob, slim="tight")), ("slim2", query_text(ctx, ob, slim=2))]
            alts += [(f"top{k_}", query_text(ctx, ob, slim=("ladder", k_))) for k_ in (2, 5, 10)]
            if ctx.tags:
                alts += [("no-cover", query_text(ctx, ob, drop=("cover",))), ("no-elem", query_text(ctx, ob, drop=("elem",)))]
            r = smt.solve(text, 2 * timeout, order=order, alts=alts, stagger=0.0)
            for t in r["tried"]:
                a = res.by_backend.setdefault(t["solver"], [0, 0.0])
                a[1] += t["s"]
            if r["result"] == "unsat":
                res.n_discharged += 1
                res.by_backend[r["solver"]][0] += 1
                ob.status = "unsat"
                res.info.setdefault("retried_sequentially", []).append(ob.label)
            else:
                ob.status = r["result"]
                ob.solver_output = r["tried"]
                still.append(ob)
        res.failed = still
    vac = 0
    path_canaries = [(ob, r) for ob, r in allres if ob.kind == "canary" and "return path" in ob.label]
    for ob, r in allres:
        if ob.kind != "canary":
            continue
        if r["result"] == "unsat":
            vac += 1
            if "precondition" in ob.label or all(r2["result"] == "unsat" for _, r2 in path_canaries):
                if ob not in res.failed:
                    res.failed.append(ob)
                    ob.status = "vacuous"
                    ob.solver_output = r["tried"]
    res.info.update({
        "paths": n_paths,
        "canaries": len(canaries),
        "canaries_dead_paths": vac,
        "inlined_getters": sorted(ctx.inlined),
        "dropped": sorted(ctx.dropped),
        "undischarged": [{"label": ob.label, "status": ob.status} for ob in res.failed],
        "prove_s": round(time.time() - t0, 2),
    })
    for ob, r in results[:3]:
        res.samples.append({"obligation": ob.label, "kind": ob.kind, "result": r["result"], "solver": r["solver"], "s": round(r["s"], 3),
                            "goal_smt": ob.goal.s[:300]})
    return res
