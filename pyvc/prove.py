"""Glue between the CLI and the symbolic engine (pyvc.symex + pyvc.smt)."""
from __future__ import annotations


class Demoted(Exception):
    """The function uses a construct outside the verifier's subset: bounded stand-in decides."""


class ProofResult:
    def __init__(self):
        self.n_obligations = 0
        self.n_discharged = 0
        self.failed = []
        self.trusted = set()
        self.by_backend = {}
        self.samples = []
        self.source_changed = False
        self.info = {}

    def summary(self):
        d = {"obligations": self.n_obligations, "discharged": self.n_discharged}
        d.update(self.info)
        return d


def prove_item(kind, name, tier, seed, known=()):
    raise Demoted("symbolic engine not built yet")
