"""Load sidecar contract files: parse with ast, rewrite implies() to a lazy form, exec, keep ASTs."""
from __future__ import annotations

import ast
import os
import sys

from . import spec

ROOT = os.path.dirname(os.path.dirname(os.path.abspath(__file__)))
CONTRACT_DIR = os.path.join(ROOT, "contracts")
REPO = os.environ.get("VERIF_REPO", "/repo")

_loaded = False
HELPERS: dict = {}        # name -> ast.FunctionDef of spec helpers (common.py + per-file helpers)
HELPER_GLOBALS: dict = {}  # shared namespace
CONTRACT_AST: dict = {}   # qualname -> ast.FunctionDef
LEMMA_AST: dict = {}      # name -> ast.FunctionDef
INVARIANT_AST: dict = {}  # (qualname, loop ordinal) -> ast.FunctionDef
SOURCES: dict = {}        # sidecar file -> source text


class _LazyImplies(ast.NodeTransformer):
    def visit_Call(self, node):
        self.generic_visit(node)
        if isinstance(node.func, ast.Name) and node.func.id == "implies" and len(node.args) == 2:
            return ast.copy_location(
                ast.BoolOp(op=ast.Or(), values=[ast.UnaryOp(op=ast.Not(), operand=node.args[0]), node.args[1]]),
                node,
            )
        return node


def _vocab():
    return {
        k: getattr(spec, k)
        for k in ("contract", "lemma", "invariant", "requires", "ensures", "raises", "may_raise", "pure", "modifies", "old", "hint", "implies", "Skip")
    }


def load(files=None):
    """Load common.py and all sidecar files (idempotent)."""
    global _loaded
    if _loaded:
        return
    _loaded = True
    import logging
    logging.disable(logging.ERROR)   # the library logs a warning per odd input; irrelevant here
    src_dir = os.path.join(REPO, "src")
    if src_dir not in sys.path:
        sys.path.insert(0, src_dir)
    ns = HELPER_GLOBALS
    ns.update(_vocab())
    ns["__name__"] = "contracts"
    names = sorted(f for f in os.listdir(CONTRACT_DIR) if f.endswith(".py") and f != "__init__.py")
    names.remove("common.py")
    for fname in ["common.py"] + names:
        path = os.path.join(CONTRACT_DIR, fname)
        src = open(path).read()
        SOURCES[fname] = src
        tree = ast.parse(src, filename=path)
        tree = _LazyImplies().visit(tree)
        ast.fix_missing_locations(tree)
        for node in tree.body:
            if isinstance(node, ast.FunctionDef):
                deco = node.decorator_list
                if not deco:
                    HELPERS[node.name] = node
                else:
                    d = deco[0]
                    if isinstance(d, ast.Call) and isinstance(d.func, ast.Name) and d.func.id in ("contract", "lemma"):
                        key = ast.literal_eval(d.args[0])
                        (CONTRACT_AST if d.func.id == "contract" else LEMMA_AST)[key] = node
                        node._sidecar = fname
                    elif isinstance(d, ast.Call) and isinstance(d.func, ast.Name) and d.func.id == "invariant":
                        key = ast.literal_eval(d.args[0])
                        loop = 0
                        for kw in d.keywords:
                            if kw.arg == "loop":
                                loop = ast.literal_eval(kw.value)
                        INVARIANT_AST[(key, loop)] = node
        exec(compile(tree, path, "exec"), ns)


def contracts():
    load()
    return spec.CONTRACTS


def lemmas():
    load()
    return spec.LEMMAS
