"""Run an SMT-LIB file through the cvc5 1.4 Python wheel (python3-vt) — used as a CLI back end."""
import sys
import cvc5

def main():
    path, tlimit_ms = sys.argv[1], sys.argv[2]
    s = cvc5.Solver()
    s.setOption("strings-exp", "true")
    s.setOption("tlimit", tlimit_ms)
    for o in sys.argv[3:]:
        k, v = o.split("=", 1)
        s.setOption(k, v)
    p = cvc5.InputParser(s)
    p.setFileInput(cvc5.InputLanguage.SMT_LIB_2_6, path)
    sm = p.getSymbolManager()
    while True:
        cmd = p.nextCommand()
        if cmd.isNull():
            break
        out = cmd.invoke(s, sm)
        if out.strip():
            print(out.strip(), flush=True)

main()
