"""Layer R: functions over ONE string argument whose result is a boolean combination of regular
properties of that string (curies.w3c). The function body (read from /repo) and the sidecar spec are
both compiled to a boolean formula over atoms `s in RegLan`; the obligation `forall s. code(s) <-> spec(s)`
is a language equality decided by z3 5.1 (the only installed back end that decides these; z3 4.8 and
cvc5 serve as refuters: they return counterexamples quickly).

Supported (anything else -> Unsupported -> demoted to the bounded stand-in):
  x = the parameter | x.partition(C)[0|2] | names bound to those (tuple-unpacking of partition)
  C in x, C not in x, not x.strip(), x.strip() == "", x == "", not x, x.startswith(C)
  bool(RE.match(x)), bool(RE.fullmatch(x)), re.fullmatch(P, x) is not None, any(ch.isspace() for ch in x)
  calls to other functions of the module under contract (their *spec* is used, not their body)
  if/return, and/or/not, conditional expressions
"""
from __future__ import annotations

import ast
import re
import sys

from .symex import Unsupported

try:
    import re._parser as sre_parse
    import re._constants as sre_c
except ImportError:  # pragma: no cover
    import sre_parse
    import sre_constants as sre_c

MAXCP = 0x2FFFF  # the solvers' character range


# ------------------------------------------------------------------------------------------
def smt_char(cp):
    return '"\\u{%x}"' % cp


def smt_str(s):
    return '"' + "".join(ch if (32 <= ord(ch) < 127 and ch not in '"\\') else "\\u{%x}" % ord(ch) for ch in s) + '"'


def re_ranges(ranges):
    """Union of inclusive code-point ranges."""
    parts = []
    for lo, hi in ranges:
        hi = min(hi, MAXCP)
        if lo > hi:
            continue
        parts.append(f"(re.range {smt_char(lo)} {smt_char(hi)})" if lo != hi else f"(str.to_re {smt_char(lo)})")
    if not parts:
        return "re.none"
    return parts[0] if len(parts) == 1 else "(re.union " + " ".join(parts) + ")"


def complement_ranges(ranges):
    out, cur = [], 0
    for lo, hi in sorted(ranges):
        if lo > cur:
            out.append((cur, lo - 1))
        cur = max(cur, hi + 1)
    if cur <= MAXCP:
        out.append((cur, MAXCP))
    return out


_ws_cache = None


def whitespace_ranges():
    """Code points that str.isspace() / str.strip() / the regex class \\s treat as whitespace (checked to agree)."""
    global _ws_cache
    if _ws_cache is None:
        ws = []
        rx = re.compile(r"\s")
        for cp in range(MAXCP + 1):
            ch = chr(cp)
            a, b, c = ch.isspace(), rx.fullmatch(ch) is not None, ch.strip() == ""
            if not (a == b == c):
                raise Unsupported(f"whitespace classes disagree at U+{cp:04X}")
            if a:
                ws.append(cp)
        for cp in range(MAXCP + 1, sys.maxunicode + 1, 1):
            if chr(cp).isspace():
                raise Unsupported("whitespace beyond the solvers' character range")
        rs = []
        for cp in ws:
            if rs and rs[-1][1] == cp - 1:
                rs[-1] = (rs[-1][0], cp)
            else:
                rs.append((cp, cp))
        _ws_cache = rs
    return _ws_cache


def category_ranges(cat):
    if cat == sre_c.CATEGORY_SPACE:
        return whitespace_ranges()
    if cat == sre_c.CATEGORY_NOT_SPACE:
        return complement_ranges(whitespace_ranges())
    if cat == sre_c.CATEGORY_DIGIT:
        rs = []
        for cp in range(MAXCP + 1):
            if chr(cp).isdigit() and re.fullmatch(r"\d", chr(cp)):
                if rs and rs[-1][1] == cp - 1:
                    rs[-1] = (rs[-1][0], cp)
                else:
                    rs.append((cp, cp))
        return rs
    raise Unsupported(f"regex category {cat}")


def translate_items(items):
    """sre parse tree -> (RegLan text, starts_with_caret, ends_with_dollar)."""
    items = list(items)
    caret = dollar = False
    if items and items[0][0] == sre_c.AT and items[0][1] == sre_c.AT_BEGINNING:
        caret = True
        items = items[1:]
    if items and items[-1][0] == sre_c.AT and items[-1][1] == sre_c.AT_END:
        dollar = True
        items = items[:-1]
    parts = [translate_item(it) for it in items]
    if not parts:
        body = '(str.to_re "")'
    elif len(parts) == 1:
        body = parts[0]
    else:
        body = "(re.++ " + " ".join(parts) + ")"
    return body, caret, dollar


def translate_item(it):
    op, av = it
    if op == sre_c.LITERAL:
        return f"(str.to_re {smt_char(av)})"
    if op == sre_c.NOT_LITERAL:
        return re_ranges(complement_ranges([(av, av)]))
    if op == sre_c.ANY:
        return re_ranges(complement_ranges([(10, 10)]))
    if op == sre_c.IN:
        neg = False
        rs = []
        for k, v in av:
            if k == sre_c.NEGATE:
                neg = True
            elif k == sre_c.LITERAL:
                rs.append((v, v))
            elif k == sre_c.RANGE:
                rs.append(v)
            elif k == sre_c.CATEGORY:
                rs += category_ranges(v)
            else:
                raise Unsupported(f"regex class item {k}")
        rs = _merge(rs)
        return re_ranges(complement_ranges(rs) if neg else rs)
    if op in (sre_c.MAX_REPEAT, sre_c.MIN_REPEAT):
        lo, hi, sub = av
        body, c, d = translate_items(sub)
        if c or d:
            raise Unsupported("anchor inside repetition")
        if lo == 0 and hi == sre_c.MAXREPEAT:
            return f"(re.* {body})"
        if lo == 1 and hi == sre_c.MAXREPEAT:
            return f"(re.+ {body})"
        if lo == 0 and hi == 1:
            return f"(re.opt {body})"
        if hi == sre_c.MAXREPEAT:
            return f"(re.++ ((_ re.^ {lo}) {body}) (re.* {body}))"
        return f"((_ re.loop {lo} {hi}) {body})"
    if op == sre_c.SUBPATTERN:
        body, c, d = translate_items(av[3])
        if c or d:
            raise Unsupported("anchor inside group")
        return body
    if op == sre_c.BRANCH:
        alts = []
        for alt in av[1]:
            body, c, d = translate_items(alt)
            if c or d:
                raise Unsupported("anchor inside alternation")
            alts.append(body)
        return "(re.union " + " ".join(alts) + ")" if len(alts) > 1 else alts[0]
    raise Unsupported(f"regex construct {op}")


def _merge(rs):
    out = []
    for lo, hi in sorted(rs):
        if out and lo <= out[-1][1] + 1:
            out[-1] = (out[-1][0], max(out[-1][1], hi))
        else:
            out.append((lo, hi))
    return out


def pattern_language(pattern, mode):
    """The set of strings x for which re.<mode>(pattern, x) succeeds (no flags)."""
    body, caret, dollar = translate_items(sre_parse.parse(pattern))
    nl = '(re.opt (str.to_re "\\u{a}"))'
    if mode == "fullmatch":
        # `$` inside fullmatch: the match must still consume the whole string, so `$` = end of string
        return body
    if mode == "match":
        if dollar:
            return f"(re.++ {body} {nl})"      # `$` also matches just before a trailing newline
        return f"(re.++ {body} re.all)"
    if mode == "search":
        pre = '(str.to_re "")' if caret else "re.all"
        post = nl if dollar else "re.all"
        return f"(re.++ {pre} {body} {post})"
    raise Unsupported("regex mode " + mode)


# ------------------------------------------------------------------------------------------
# module constants (patterns) evaluated from the source
# ------------------------------------------------------------------------------------------
def module_constants(tree, extra=None):
    """Evaluate top-level NAME = <str | f-string | re.compile(<str expr>)> assignments."""
    env = dict(extra or {})
    for node in tree.body:
        if isinstance(node, ast.Assign) and len(node.targets) == 1 and isinstance(node.targets[0], ast.Name):
            try:
                env[node.targets[0].id] = const_eval(node.value, env)
            except Unsupported:
                pass
    return env


def const_eval(node, env):
    if isinstance(node, ast.Constant) and isinstance(node.value, str):
        return node.value
    if isinstance(node, ast.Name) and node.id in env:
        return env[node.id]
    if isinstance(node, ast.JoinedStr):
        out = ""
        for part in node.values:
            if isinstance(part, ast.Constant):
                out += part.value
            elif isinstance(part, ast.FormattedValue) and part.format_spec is None and part.conversion == -1:
                v = const_eval(part.value, env)
                if not isinstance(v, str):
                    raise Unsupported("f-string piece")
                out += v
            else:
                raise Unsupported("f-string form")
        return out
    if isinstance(node, ast.BinOp) and isinstance(node.op, ast.Add):
        return const_eval(node.left, env) + const_eval(node.right, env)
    if isinstance(node, ast.Call) and isinstance(node.func, ast.Attribute) and node.func.attr == "compile" \
            and isinstance(node.func.value, ast.Name) and node.func.value.id in ("re", "_re") and len(node.args) == 1 and not node.keywords:
        return ("compiled", const_eval(node.args[0], env))
    raise Unsupported("constant expression")


# ------------------------------------------------------------------------------------------
# boolean formulas over `s in RegLan`
# ------------------------------------------------------------------------------------------
ALL = "re.all"
NOCOLON_CACHE = {}


def not_containing(c):
    return f"(re.* {re_ranges(complement_ranges([(ord(c), ord(c))]))})" if len(c) == 1 else None


class Part:
    """A string expression over the input s: whole | before(C) | after(C) (first occurrence of the 1-char C)."""
    def __init__(self, kind, sep=None):
        self.kind, self.sep = kind, sep


def in_lang(part, R):
    """Formula (SMT Bool text over the variable s) for `part in R`."""
    if part.kind == "whole":
        return f"(str.in_re s {R})"
    nc = not_containing(part.sep)
    sep = f"(str.to_re {smt_str(part.sep)})"
    if part.kind == "before":
        return f"(or (str.in_re s (re.inter {nc} {R})) (str.in_re s (re.++ (re.inter {R} {nc}) {sep} re.all)))"
    if part.kind == "after":
        return f"(or (and (str.in_re s {nc}) (str.in_re \"\" {R})) (str.in_re s (re.++ {nc} {sep} {R})))"
    if part.kind == "mid":   # the separator component of partition: sep if present else ""
        return f"(or (and (str.in_re s {nc}) (str.in_re \"\" {R})) (and (not (str.in_re s {nc})) (str.in_re {smt_str(part.sep)} {R})))"
    raise Unsupported("part kind")


class Interp:
    def __init__(self, consts, specs, funcs=None):
        self.consts = consts      # name -> str | ("compiled", pattern)
        self.specs = specs        # function name -> callable(Part) -> formula   (contracts of callees)
        self.funcs = funcs or {}  # helper name -> FunctionDef (sidecar spec helpers, inlined)

    # ---- string-valued expressions
    def part(self, node, env):
        if isinstance(node, ast.Name) and node.id in env and isinstance(env[node.id], Part):
            return env[node.id]
        if isinstance(node, ast.Subscript) and isinstance(node.value, ast.Call) and isinstance(node.value.func, ast.Attribute) \
                and node.value.func.attr == "partition" and isinstance(node.slice, ast.Constant):
            base = self.part(node.value.func.value, env)
            sep = self.const_str(node.value.args[0])
            if base.kind != "whole" or len(sep) != 1:
                raise Unsupported("nested partition / multi-character separator")
            return Part({0: "before", 1: "mid", 2: "after"}[node.slice.value], sep)
        raise Unsupported("string expression " + ast.unparse(node)[:40])

    def const_str(self, node):
        v = const_eval(node, self.consts)
        if not isinstance(v, str):
            raise Unsupported("expected a string constant")
        return v

    def regex_of(self, node):
        """(pattern, compiled?) for a RE object or a pattern string expression."""
        v = const_eval(node, self.consts)
        if isinstance(v, tuple):
            return v[1]
        return v

    # ---- boolean expressions -> formula text
    def truth(self, node, env):
        if isinstance(node, ast.Constant) and isinstance(node.value, bool):
            return "true" if node.value else "false"
        if isinstance(node, ast.Name) and node.id in env and isinstance(env[node.id], str):
            return env[node.id]
        if isinstance(node, ast.BoolOp):
            op = "and" if isinstance(node.op, ast.And) else "or"
            return f"({op} " + " ".join(self.truth(v, env) for v in node.values) + ")"
        if isinstance(node, ast.UnaryOp) and isinstance(node.op, ast.Not):
            return f"(not {self.truth(node.operand, env)})"
        if isinstance(node, ast.IfExp):
            c = self.truth(node.test, env)
            return f"(ite {c} {self.truth(node.body, env)} {self.truth(node.orelse, env)})"
        if isinstance(node, ast.Compare) and len(node.ops) == 1:
            op, l, r = node.ops[0], node.left, node.comparators[0]
            if isinstance(op, (ast.In, ast.NotIn)):
                c = self.const_str(l)
                f = in_lang(self.part(r, env), f"(re.++ re.all (str.to_re {smt_str(c)}) re.all)")
                return f if isinstance(op, ast.In) else f"(not {f})"
            if isinstance(op, (ast.Eq, ast.NotEq)):
                # <part or part.strip()> == "<const>"
                c = self.const_str(r)
                if isinstance(l, ast.Call) and isinstance(l.func, ast.Attribute) and l.func.attr == "strip" and not l.args:
                    if c != "":
                        raise Unsupported("strip() compared with a non-empty constant")
                    f = in_lang(self.part(l.func.value, env), f"(re.* {re_ranges(whitespace_ranges())})")
                else:
                    f = in_lang(self.part(l, env), f"(str.to_re {smt_str(c)})")
                return f if isinstance(op, ast.Eq) else f"(not {f})"
            if isinstance(op, (ast.Is, ast.IsNot)) and isinstance(r, ast.Constant) and r.value is None:
                f = self.match_call(l, env)
                return f"(not {f})" if isinstance(op, ast.Is) else f
        if isinstance(node, ast.Call):
            fn = node.func
            if isinstance(fn, ast.Name) and fn.id == "bool" and len(node.args) == 1:
                return self.truth(node.args[0], env)
            if isinstance(fn, ast.Name) and fn.id == "any" and len(node.args) == 1 and isinstance(node.args[0], ast.GeneratorExp):
                g = node.args[0]
                if len(g.generators) == 1 and not g.generators[0].ifs and isinstance(g.elt, ast.Call) and isinstance(g.elt.func, ast.Attribute) \
                        and g.elt.func.attr == "isspace" and isinstance(g.elt.func.value, ast.Name) and isinstance(g.generators[0].target, ast.Name) \
                        and g.elt.func.value.id == g.generators[0].target.id:
                    p = self.part(g.generators[0].iter, env)
                    return in_lang(p, f"(re.++ re.all {re_ranges(whitespace_ranges())} re.all)")
                raise Unsupported("any(...) form")
            if isinstance(fn, ast.Attribute) and fn.attr == "startswith" and len(node.args) == 1:
                c = self.const_str(node.args[0])
                return in_lang(self.part(fn.value, env), f"(re.++ (str.to_re {smt_str(c)}) re.all)")
            if isinstance(fn, ast.Attribute) and fn.attr in ("match", "fullmatch", "search"):
                return self.match_call(node, env)
            if isinstance(fn, ast.Name) and fn.id in self.specs and len(node.args) == 1:
                return self.specs[fn.id](self.part(node.args[0], env))
            if isinstance(fn, ast.Name) and fn.id in self.funcs and len(node.args) == len(self.funcs[fn.id].args.args):
                f = self.funcs[fn.id]
                env2 = {a.arg: self.part(x, env) for a, x in zip(f.args.args, node.args)}
                return self.run_body(f.body, env2)
        # truthiness of x.strip(): x is not all whitespace
        if isinstance(node, ast.Call) and isinstance(node.func, ast.Attribute) and node.func.attr == "strip" and not node.args:
            return f"(not {in_lang(self.part(node.func.value, env), '(re.* ' + re_ranges(whitespace_ranges()) + ')')})"
        # truthiness of a string part: non-empty
        try:
            p = self.part(node, env)
        except Unsupported:
            raise Unsupported("boolean expression " + ast.unparse(node)[:50])
        return f"(not {in_lang(p, '(str.to_re \"\")')})"

    def match_call(self, node, env):
        if not (isinstance(node, ast.Call) and isinstance(node.func, ast.Attribute) and node.func.attr in ("match", "fullmatch", "search")):
            raise Unsupported("match expression")
        fn = node.func
        if isinstance(fn.value, ast.Name) and fn.value.id in ("re", "_re") and len(node.args) == 2:
            pat, arg = self.regex_of(node.args[0]), node.args[1]
        elif len(node.args) == 1:
            pat, arg = self.regex_of(fn.value), node.args[0]
        else:
            raise Unsupported("match call form")
        return in_lang(self.part(arg, env), pattern_language(pat, fn.attr))

    # ---- statements: if / return / simple assignments
    def run_body(self, stmts, env):
        """Returns the formula for 'the function returns a truthy value'."""
        stmts = [s for s in stmts if not (isinstance(s, ast.Expr) and isinstance(s.value, ast.Constant))]
        if not stmts:
            raise Unsupported("function may fall off the end")
        s, rest = stmts[0], stmts[1:]
        if isinstance(s, ast.Return):
            return self.truth(s.value, env)
        if isinstance(s, ast.If):
            c = self.truth(s.test, env)
            then = self.run_body(list(s.body) + rest, env)
            els = self.run_body(list(s.orelse) + rest, env)
            return f"(ite {c} {then} {els})"
        if isinstance(s, ast.Assign) and len(s.targets) == 1:
            t = s.targets[0]
            env = dict(env)
            if isinstance(t, ast.Tuple) and len(t.elts) == 3 and isinstance(s.value, ast.Call) and isinstance(s.value.func, ast.Attribute) \
                    and s.value.func.attr == "partition":
                base = self.part(s.value.func.value, env)
                sep = self.const_str(s.value.args[0])
                if base.kind != "whole" or len(sep) != 1:
                    raise Unsupported("partition form")
                for k, e in zip(("before", "mid", "after"), t.elts):
                    env[e.id] = Part(k, sep)
                return self.run_body(rest, env)
            if isinstance(t, ast.Name):
                try:
                    env[t.id] = self.part(s.value, env)
                except Unsupported:
                    env[t.id] = self.truth(s.value, env)
                return self.run_body(rest, env)
        raise Unsupported("statement " + type(s).__name__)


def _un(e):
    from .smt import unparse_sexpr
    return unparse_sexpr(e)


def to_reglan(e):
    """Boolean combination of (str.in_re s R) atoms  ->  one RegLan term denoting {s | formula}."""
    if e == "true":
        return "re.all"
    if e == "false":
        return "re.none"
    if isinstance(e, list):
        op = e[0]
        if op == "str.in_re":
            if e[1] == "s":
                return _un(e[2])
            return f"(ite {_un(e)} re.all re.none)"        # membership of a constant string: a Boolean constant
        if op == "and":
            return "(re.inter " + " ".join(to_reglan(x) for x in e[1:]) + ")" if len(e) > 2 else to_reglan(e[1])
        if op == "or":
            return "(re.union " + " ".join(to_reglan(x) for x in e[1:]) + ")" if len(e) > 2 else to_reglan(e[1])
        if op == "not":
            return f"(re.comp {to_reglan(e[1])})"
        if op == "ite":
            c, a, b = (to_reglan(x) for x in e[1:])
            return f"(re.union (re.inter {c} {a}) (re.inter (re.comp {c}) {b}))"
    raise Unsupported("formula shape " + str(e)[:40])


# ------------------------------------------------------------------------------------------
# driver
# ------------------------------------------------------------------------------------------
def parse_smt_string(lit):
    body = lit[1:-1].replace('""', '"')
    return re.sub(r"\\u\{([0-9a-fA-F]+)\}", lambda m: chr(int(m.group(1), 16)), body)


def build_obligation(repo, loader, q):
    """Returns (label, smt text, param name) for the contract of q (module w3c): language(code) == language(spec)."""
    fnode, mod, cls = repo.funcs[q]
    cnode = loader.CONTRACT_AST[q]
    params = [a.arg for a in cnode.args.args]
    fparams = [a.arg for a in fnode.args.args]
    if len(params) != 1 or params != fparams:
        raise Unsupported("regular layer handles functions of one string parameter")
    code_consts = module_constants(repo.modules[mod])
    side_src = loader.SOURCES.get(getattr(cnode, "_sidecar", ""), "")
    side_consts = module_constants(ast.parse(side_src)) if side_src else {}
    helpers = dict(loader.HELPERS)
    spec_interp = Interp(side_consts, {}, helpers)

    def spec_of(qname):
        cn = loader.CONTRACT_AST[qname]
        p = cn.args.args[0].arg
        for st in cn.body:
            if isinstance(st, ast.Expr) and isinstance(st.value, ast.Call) and isinstance(st.value.func, ast.Name) and st.value.func.id == "ensures":
                e = st.value.args[0]
                if isinstance(e, ast.Compare) and isinstance(e.left, ast.Name) and e.left.id == "result" and isinstance(e.ops[0], ast.Eq):
                    rhs = e.comparators[0]
                    return lambda part, rhs=rhs, p=p: spec_interp.truth(rhs, {p: part})
        raise Unsupported(f"contract of {qname} is not of the form ensures(result == <spec>)")

    # callees inside the module use their contracts (modular), never their bodies
    callee_specs = {}
    for other in loader.CONTRACT_AST:
        if other.startswith(mod + ".") and other != q and other in repo.funcs:
            callee_specs[other.split(".")[-1]] = spec_of(other)
    code = Interp(code_consts, callee_specs).run_body(fnode.body, {fparams[0]: Part("whole")})
    spec = spec_of(q)(Part("whole"))
    # both sides are boolean combinations of `s in R_i` for the SAME s: fold them into one regular language each
    # (and -> inter, or -> union, not -> comp) and ask for a string in the symmetric difference
    from .smt import parse_sexpr
    A, B = to_reglan(parse_sexpr(code)), to_reglan(parse_sexpr(spec))
    text = ("(set-logic ALL)\n(set-option :produce-models true)\n(declare-const s String)\n"
            f"(assert (str.in_re s (re.union (re.inter {A} (re.comp {B})) (re.inter {B} (re.comp {A})))))\n(check-sat)\n(get-value (s))\n")
    return f"{q}: language(code) == language(spec) over all strings", text, fparams[0]
