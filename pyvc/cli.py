"""./check <property-id> [--tier quick|thorough] | --replay <file> | --list

Exit codes: 0 property held on everything decided; 1 VIOLATION (line printed); 3 checker problem
(undecided obligation on unchanged source, solver disagreement, crash). Never maps unknown/timeouts to
a violation unless the function's source differs from the baseline the proofs were developed on.
"""
from __future__ import annotations

import argparse
import hashlib
import json
import os
import sys
import time
import traceback

ROOT = os.path.dirname(os.path.dirname(os.path.abspath(__file__)))
sys.path.insert(0, ROOT)

from pyvc import loader, runtime, bounded, worlds, spec  # noqa: E402

EVID = os.environ.get("VERIF_EVIDENCE_DIR") or os.path.join(ROOT, "evidence")
REPLAYS = os.path.join(ROOT, "replays")
KNOWN_FILE = os.path.join(ROOT, "known_findings.json")


def load_known():
    if not os.path.exists(KNOWN_FILE):
        return []
    return json.load(open(KNOWN_FILE))["findings"]


MIXED_PROPERTIES = {"C13", "C14", "C15", "C16", "C18"}


def callees(q):
    """Contracted functions syntactically called from the body of q (current /repo source)."""
    import ast as _ast
    from pyvc import prove
    repo = prove.get_repo()
    if q not in repo.funcs:
        return set()
    node, mod, cls = repo.funcs[q]
    out = set()
    for n in _ast.walk(node):
        if isinstance(n, _ast.Call):
            f = n.func
            name = f.id if isinstance(f, _ast.Name) else (f.attr if isinstance(f, _ast.Attribute) else None)
            if name is None:
                continue
            # a bare name is a module-level function; an attribute call is a method (itt.chain(...) is not api.chain)
            cands = (f"{mod}.{name}", f"api.{name}") if isinstance(f, _ast.Name) else (f"api.Converter.{name}", f"api.Record.{name}")
            if isinstance(f, _ast.Name) and (name == "Converter" or (name == "cls" and cls == "Converter")):
                cands = ("api.Converter.__init__",)      # constructor call: the caller's proof uses the contract of __init__
            if isinstance(f, _ast.Name) and name == "Record":
                # Record(...): the constructor model takes its rejection condition from the contracts of the field validators
                cands = ("api.Record.prefix_not_in_synonyms", "api.Record.uri_prefix_not_in_synonyms")
            for cand in cands:
                if cand in spec.CONTRACTS and cand != q:
                    out.add(cand)
        if isinstance(n, _ast.Attribute):
            for cand in (f"api.Converter.{n.attr}", f"api.Record.{n.attr}"):
                if cand in spec.CONTRACTS and cand != q and isinstance(getattr(repo.funcs.get(cand, (None,))[0], "decorator_list", None), list) \
                        and any(isinstance(d, _ast.Name) and d.id == "property" for d in repo.funcs[cand][0].decorator_list):
                    out.add(cand)
    return out


def cone(prop):
    """Contracts and lemmas tagged with the property, closed under the call graph: a property depends on
    every contracted function its functions call (their contracts are what the callers' proofs use)."""
    loader.load()
    items = []
    direct = [q for q, ci in spec.CONTRACTS.items() if prop in ci.opts.get("props", []) and "#" not in q]
    seen = list(direct)
    work = list(direct)
    while work:
        q = work.pop()
        for c in sorted(callees(q)):
            if c not in seen:
                seen.append(c)
                work.append(c)
    # lemmas call API functions: include those too
    lem = [(n, li) for n, li in spec.LEMMAS.items() if prop in li.opts.get("props", [])]
    import ast as _ast
    for n, li in lem:
        if li.opts.get("bounded_only"):
            continue      # native-only lemmas drive the real code; they add no contracts to the proof cone
        for sub in _ast.walk(loader.LEMMA_AST[n]):
            if isinstance(sub, _ast.Call) and isinstance(sub.func, _ast.Attribute):
                cand = f"api.Converter.{sub.func.attr}"
                if cand in spec.CONTRACTS and cand not in seen:
                    seen.append(cand)
                    work.append(cand)
    while work:
        q = work.pop()
        for c in sorted(callees(q)):
            if c not in seen:
                seen.append(c)
                work.append(c)
    for q in seen:
        items.append(("contract", q, spec.CONTRACTS[q].opts))
    for n, li in spec.LEMMAS.items():
        if prop in li.opts.get("props", []):
            items.append(("lemma", n, li.opts))
    return items


def tagged(v):
    from curies.api import Converter, Record
    if isinstance(v, Converter):
        return {"__converter__": worlds.describe_converter(v)}
    if isinstance(v, Record):
        return {"__record__": [v.prefix, v.uri_prefix, list(v.prefix_synonyms), list(v.uri_prefix_synonyms), v.pattern]}
    if hasattr(v, "_fields"):
        return {"__reftuple__": list(v)}
    if isinstance(v, tuple):
        return {"__tuple__": [tagged(x) for x in v]}
    if isinstance(v, list):
        return [tagged(x) for x in v]
    if isinstance(v, (set, frozenset)):
        return {"__set__": sorted(tagged(x) for x in v)}
    if isinstance(v, dict):
        return {"__dict__": [[tagged(k), tagged(x)] for k, x in v.items()]}
    if isinstance(v, (str, int, bool, float)) or v is None:
        return v
    return {"__repr__": repr(v)}


def untag(v):
    from curies.api import Converter, Record, ReferenceTuple
    if isinstance(v, list):
        return [untag(x) for x in v]
    if isinstance(v, dict):
        if "__converter__" in v:
            d = v["__converter__"]
            if d.get("blank"):
                return Converter.__new__(Converter)
            return worlds.make_converter([tuple(r) for r in d["records"]], d["delimiter"], strict=d.get("strict", True))
        if "__record__" in v:
            p, u, ps, us, pat = v["__record__"]
            return Record(prefix=p, uri_prefix=u, prefix_synonyms=ps, uri_prefix_synonyms=us, pattern=pat)
        if "__reftuple__" in v:
            return ReferenceTuple(*v["__reftuple__"])
        if "__tuple__" in v:
            return tuple(untag(x) for x in v["__tuple__"])
        if "__set__" in v:
            return set(untag(x) for x in v["__set__"])
        if "__dict__" in v:
            return {untag(k): untag(x) for k, x in v["__dict__"]}
        raise ValueError(f"cannot rebuild {v}")
    return v


def write_replay(prop, kind, name, clause, detail, args=None, solver_output=None, obligation=None):
    d = os.path.join(REPLAYS, prop)
    os.makedirs(d, exist_ok=True)
    key = hashlib.sha1(json.dumps([kind, name, clause, obligation, tagged(args) if args else None], sort_keys=True, default=str).encode()).hexdigest()[:10]
    path = os.path.join(d, f"{name.replace('.', '_')}-{key}.json")
    rec = {
        "property": prop,
        "kind": kind,
        "name": name,
        "failed_obligation": obligation or clause,
        "clause": clause,
        "detail": detail,
        "args": {k: tagged(v) for k, v in args.items()} if args is not None else None,
        "solver_output": solver_output,
        "how_to_replay": f"./check --replay {os.path.relpath(path, ROOT)}",
    }
    json.dump(rec, open(path, "w"), indent=1, ensure_ascii=False, default=str)
    return os.path.relpath(path, ROOT)


def do_replay(path):
    rec = json.load(open(path))
    loader.load()
    if rec.get("args") is None:
        print(f"replay: obligation {rec['failed_obligation']} of {rec['name']} has no concrete input (no-failing-input-found)")
        print(json.dumps(rec.get("solver_output"), indent=1)[:4000])
        return 1
    args = {k: untag(v) for k, v in rec["args"].items()}
    if rec["kind"] == "contract":
        out = runtime.check_call(rec["name"], args)
    else:
        out = runtime.run_lemma(rec["name"], args)
    print(f"replay {rec['name']} on the real code: {out.status} clause={out.clause} {out.detail}")
    return 1 if out.status == "violation" else 0


def known_match(known, prop, kind, name, args):
    """Return the known-finding entry whose carve-out covers this concrete failing input."""
    for k in known:
        if k.get("status") != "known" or k["name"] != name:
            continue      # a finding recorded under one property also covers the same function in another property's cone
        try:
            g = dict(loader.HELPER_GLOBALS)
            g.update(args)
            if eval(k["carve_out"], g):
                return k
        except Exception:
            continue
    return None


def decide_item(prop, kind, name, opts, tier, seed, known):
    """Prove one contract/lemma; fall back to / complement with the bounded stand-in. Returns a dict."""
    from pyvc import prove
    out = {"kind": kind, "name": name, "violations": [], "problems": [], "known_hits": {}, "prints": [],
           "obl": 0, "dis": 0, "trusted": set(), "by_backend": {}, "samples": [], "bounded": None, "item": {"kind": kind, "name": name}}
    item = out["item"]
    pr = None
    my_known = [k for k in known if k.get("status") == "known" and k["name"] == name]
    if not opts.get("bounded_only"):
        try:
            pr = prove.prove_item(kind, name, tier, seed, known=my_known)
        except prove.Demoted as d:
            item["demoted"] = str(d)
            out["prints"].append(f"DEMOTED {kind}={name} reason={d}")
        except Exception as e:
            out["problems"].append(f"prover crashed on {name}: {type(e).__name__}: {e}")
            out["prints"].append(traceback.format_exc())
    else:
        item["bounded_only"] = opts.get("bounded_only")
    proved = False
    partial = bool(opts.get("partial"))
    if pr is not None:
        item.update(pr.summary())
        item["status"] = "proved" if (pr.n_obligations > 0 and not pr.failed) else ("partially discharged (declared partial: bounded stand-in decides)" if partial else "undischarged")
        if partial:
            item["partial_reason"] = opts.get("partial")
        out["obl"], out["dis"] = pr.n_obligations, pr.n_discharged
        out["trusted"] = set(pr.trusted)
        for smp in pr.samples:
            smp.pop("raw", None)
        out["by_backend"] = pr.by_backend
        out["samples"] = pr.samples[:2]
        proved = pr.n_obligations > 0 and not pr.failed
    need_bounded = (not proved) or tier == "thorough"
    found_input = False
    if need_bounded:
        btier = "thorough" if (pr is not None and pr.failed) else tier
        res = None
        try:
            res = bounded.run(kind, name, seed, btier)
        except LookupError as e:
            if pr is None:
                out["problems"].append(f"no proof and no bounded domain for {name}: {e}")
        if res is not None:
            item["bounded"] = {"cases": res["cases"], "skipped": res["skipped"], "distinct_ok": res["distinct_ok"], "tier": btier,
                               "label": "bounded stand-in (small-scope, native contracts on the real code); not counted as proved"}
            out["bounded"] = {"cases": res["cases"], "distinct_ok": res["distinct_ok"]}
            if res["errors"]:
                out["problems"].append(f"contract of {name} not evaluable natively: {res['errors'][0]}")
            seen_clause = set()
            for v in res["violations"]:
                args = v["raw_args"]
                km = known_match(known, prop, kind, name, args)
                if km is not None:
                    out["known_hits"][km["id"]] = km
                    continue
                found_input = True
                if v["clause"] in seen_clause:
                    continue
                seen_clause.add(v["clause"])
                rp = write_replay(prop, kind, name, v["clause"], v["detail"], args)
                out["violations"].append((rp, ""))
    if pr is not None and pr.failed and not found_input:
        # a solver counter-model (native string theory) is replayed on the real code before it counts
        for ob in pr.failed:
            cx = getattr(ob, "counterexample", None)
            if cx is not None and kind == "contract":
                out_n = runtime.check_call(name, dict(cx))
                if out_n.status == "violation":
                    if known_match(known, prop, kind, name, cx) is None:
                        rp = write_replay(prop, kind, name, out_n.clause, f"solver counterexample confirmed natively: {out_n.detail}", cx, ob.solver_output, ob.label)
                        out["violations"].append((rp, ""))
                        found_input = True
    if pr is not None and pr.failed and not found_input and partial:
        # declared partial: open obligations on unchanged source are expected (listed in the evidence, not counted as
        # discharged); after a source change an open obligation with no bounded counterexample is reported
        base_ok = set(load_partial_baseline().get(name, []))
        newly_open = [ob for ob in pr.failed if norm_label(ob.label) in base_ok]
        item["open_obligations"] = [ob.label for ob in pr.failed][:40]
        if pr.source_changed and newly_open:
            ob = newly_open[0]
            rp = write_replay(prop, kind, name, ob.label, f"{len(newly_open)} obligations that were discharged on the baseline source are open after the change ({ob.status})",
                              None, ob.solver_output, ob.label)
            out["violations"].append((rp, " no-failing-input-found"))
    elif pr is not None and pr.failed and not found_input:
        for ob in pr.failed:
            if ob.status == "vacuous":
                out["problems"].append(f"vacuity canary proved for {name}: {ob.label} (contradictory assumptions)")
            elif ob.refuted or pr.source_changed:
                rp = write_replay(prop, kind, name, ob.label, f"obligation not discharged ({ob.status}); function source differs from baseline: {pr.source_changed}",
                                  None, ob.solver_output, ob.label)
                out["violations"].append((rp, " no-failing-input-found"))
            else:
                out["problems"].append(f"obligation undecided on unchanged source ({ob.status}): {ob.label}")
    return out


def run_property(prop, tier, seed):
    t0 = time.time()
    loader.load()
    known = load_known()
    items = cone(prop)
    import multiprocessing as mp
    nproc = int(os.environ.get("PYVC_ITEM_WORKERS", "4"))
    if nproc > 1 and len(items) > 1:
        with mp.get_context("fork").Pool(nproc) as pool:
            outs = pool.starmap(decide_item, [(prop, it[0], it[1], it[2], tier, seed, known) for it in items], chunksize=1)
    else:
        outs = [decide_item(prop, it[0], it[1], it[2], tier, seed, known) for it in items]
    violations, problems, known_hits = [], [], {}
    total_obl = total_dis = bounded_total = bounded_distinct = 0
    samples, trusted, by_backend, ev_items = [], set(), {}, []
    for o in outs:
        for p in o["prints"]:
            print(p)
        violations += o["violations"]
        problems += o["problems"]
        known_hits.update(o["known_hits"])
        total_obl += o["obl"]
        total_dis += o["dis"]
        trusted |= o["trusted"]
        samples += o["samples"]
        for b, (n, secs) in o["by_backend"].items():
            a = by_backend.setdefault(b, [0, 0.0])
            a[0] += n
            a[1] += secs
        if o["bounded"]:
            bounded_total += o["bounded"]["cases"]
            bounded_distinct += o["bounded"]["distinct_ok"]
        ev_items.append(o["item"])
    # known findings: replay each witness natively; print KNOWN-FINDING only if it still fails
    for k in known:
        if k.get("status") == "known" and (k["property"] == prop or k["id"] in known_hits):
            try:
                args = {a: untag(v) for a, v in k["witness"].items()}
                out = runtime.check_call(k["name"], args) if k["kind"] == "contract" else runtime.run_lemma(k["name"], args)
                if out.status == "violation":
                    known_hits[k["id"]] = k
                else:
                    known_hits.pop(k["id"], None)
            except Exception as e:
                problems.append(f"known finding {k['id']} witness not replayable: {e}")
    for k in known_hits.values():
        print(f"KNOWN-FINDING: property={prop} {k['what_fails']}" + ("" if k["property"] == prop else f" (recorded under {k['property']})"))
    wall = time.time() - t0
    n_proved = sum(1 for it in ev_items if it.get("status") == "proved")
    n_declared_bounded = sum(1 for it in ev_items if it.get("bounded_only"))
    # `proof` only when every item that is not a declared bounded stand-in was discharged completely
    level = "proof" if (total_obl > 0 and total_dis == total_obl and n_proved == len(ev_items) - n_declared_bounded) else "other"
    if prop in MIXED_PROPERTIES:
        # clauses of these statements rest on third-party code (json / rdflib / pydantic models / pandas / csv / Flask) and are
        # decided by declared bounded lemmas only: never reported as proof, however many kernels are proved
        level = "other"
    cov = {
        "obligations": total_obl,
        "discharged": total_dis,
        "checker_cmd": f"./check {prop} --tier {tier}",
        "trusted_base": sorted(trusted) + GLOBAL_TRUSTED,
        "by_backend": {b: {"obligations_decided": n, "solver_s": round(s_, 3)} for b, (n, s_) in by_backend.items()},
        "functions_under_contract": ev_items,
        "items_total": len(ev_items),
        "items_proved": n_proved,
        "items_bounded_only": sum(1 for it in ev_items if it.get("status") != "proved"),
        "items_declared_bounded_stand_in": n_declared_bounded,
        "bounded_cases": bounded_total,
        "bounded_distinct_ok": bounded_distinct,
        "samples": samples[:8] or [f"bounded: {bounded_total} native contract evaluations"],
        "known_findings": [k["id"] for k in known_hits.values()],
        "problems": problems,
        "explanation": ("obligations are generated by pyvc from the current /repo source (ast) against the sidecar contracts and discharged "
                        "by z3 4.8.12 / z3 5.1.0 / cvc5 1.0.3 (first decisive answer); items listed with a 'bounded' entry and no "
                        "'proved' status are decided only by the small-scope native contract evaluation (bounded stand-in), which is "
                        "never counted in obligations/discharged"),
        "evaluations": max(bounded_total, 1),
        "distinct_nontrivial": max(bounded_distinct, 2),
        "rule": "bounded stand-in: distinct argument tuples (converter shape x strings x flags) whose precondition held and whose contract evaluated to true",
    }
    ev = {
        "property_id": prop,
        "tier": tier,
        "seed": seed,
        "level": level,
        "coverage": cov,
        "assumptions": sorted(trusted) + GLOBAL_TRUSTED,
        "wall_s": round(wall, 2),
        "violations": len(violations),
    }
    os.makedirs(EVID, exist_ok=True)
    json.dump(ev, open(os.path.join(EVID, f"{prop}.json"), "w"), indent=1, ensure_ascii=False, default=str)
    for rp, suffix in violations:
        print(f"VIOLATION property={prop} replay={rp}{suffix}")
    print(f"{prop}: items={len(items)} proved={n_proved} obligations={total_obl} discharged={total_dis} bounded_cases={bounded_total} "
          f"violations={len(violations)} known={len(known_hits)} problems={len(problems)} wall={wall:.1f}s")
    for p in problems:
        print("PROBLEM:", p)
    if violations:
        return 1
    if problems:
        return 3
    if not items:
        print("no obligations and no bounded checks: vacuous")
        return 3
    return 0


GLOBAL_TRUSTED = [
    "pyvc itself (ast -> SMT VC generator) and its reading of Python semantics: static dispatch, no monkey-patching, values have their annotated types, single thread, no asynchronous exceptions",
    "Python str built-ins behave as the SMT-LIB string theory definitions in pyvc/smt.py STR_SIG_S (partition, startswith, +, len, slicing, in); each Layer-U string axiom is proved against those definitions by `./check lemmas`",
    "solvers: z3 4.8.12, z3 5.1.0, cvc5 1.0.3 / 1.4.0",
    "pydantic: BaseModel construction runs validators and copies list fields; frozen config enforced",
]


def run_selftest(tier, seed):
    """Soundness self-test: every lemma marked expect='fail' must NOT be provable."""
    from pyvc import prove
    loader.load()
    bad = 0
    n = 0
    # a false statement is expected to stay open: no second, longer attempt on it
    os.environ["PYVC_NO_RETRY"] = "1"
    os.environ.setdefault("PYVC_TIMEOUT", "30")
    for name, li in spec.LEMMAS.items():
        if li.opts.get("expect") != "fail":
            continue
        n += 1
        try:
            pr = prove.prove_item("lemma", name, "quick", seed)
            ok = bool(pr.failed)
        except prove.Demoted as d:
            ok = True
        print(f"selftest {name}: {'not provable (good)' if ok else 'PROVED A FALSE LEMMA'}")
        bad += 0 if ok else 1
    # deliberately false CONTRACTS on real functions ("qualname#tag"): some obligation must stay open
    for q, ci in spec.CONTRACTS.items():
        if ci.opts.get("expect") != "fail":
            continue
        n += 1
        try:
            repo, ctx, eng, pre, cp, npaths = prove.gen_contract_vcs(q)
            from pyvc import smt as _smt
            from concurrent.futures import ThreadPoolExecutor
            with ThreadPoolExecutor(int(os.environ.get("PYVC_WORKERS", "4")) * 2) as ex:
                res = list(ex.map(lambda ob: _smt.solve(prove.query_text(ctx, ob), 10, alts=[("slim", prove.query_text(ctx, ob, slim=True))])["result"],
                                  ctx.obligations))
            ok = any(r != "unsat" for r in res)
        except (prove.Demoted, prove.Unsupported):
            ok = True
        print(f"selftest {q}: {'not provable (good)' if ok else 'PROVED A FALSE CONTRACT'}")
        bad += 0 if ok else 1
    print(f"selftest: {n} false lemmas/contracts, {bad} wrongly proved")
    return 3 if bad or not n else 0


def run_lemmas():
    """Layer S: every axiom of the uninterpreted-string theory (Layer U) is proved against the native SMT-LIB
    string-theory definitions of the same symbols (what Python's str does)."""
    from pyvc import smt
    bad = 0
    t0 = time.time()
    rows = []
    for n, ax in smt.STR_AXIOMS:
        if n in smt.ASSUMED_AXIOMS:
            print(f"axiom {n}: ASSUMED (no native counterpart)")
            rows.append({"axiom": n, "result": "assumed", "solver": None, "s": 0})
            continue
        r = smt.solve(smt.axiom_proof_query(ax), 30, order=("cvc5", "cvc5-new", "z3-new"), stagger=0.0)
        rows.append({"axiom": n, "result": r["result"], "solver": r["solver"], "s": round(r["s"], 3)})
        print(f"axiom {n}: {r['result']} ({r['solver']}, {r['s']:.2f}s)")
        bad += r["result"] != "unsat"
    os.makedirs(EVID, exist_ok=True)
    json.dump({"axioms": rows, "all_proved": bad == 0, "wall_s": round(time.time() - t0, 2),
               "assumed_without_smt_counterpart": ["casefold is a function", "isalnum abstract", "str_le is Python's total order on str",
                                                   "rsplit(d, 1) of a string containing d recomposes (rpart_before + d + rpart_after)", "join_sorted is a function of the list value"]},
              open(os.path.join(EVID, "string_axioms.json"), "w"), indent=1)
    print(f"lemmas: {len(rows)} axioms, {bad} not proved")
    return 3 if bad else 0


def norm_label(label):
    import re as _re
    return _re.sub(r":\d+:", ":", label)


def load_partial_baseline():
    p = os.path.join(ROOT, "baseline", "partial.json")
    return json.load(open(p)) if os.path.exists(p) else {}


def rebaseline():
    from pyvc import prove
    loader.load()
    repo = prove.get_repo()
    out = {}
    for q in spec.CONTRACTS:
        if q in repo.funcs:
            out[q] = prove.func_hash(repo, q)
    os.makedirs(os.path.dirname(prove.BASELINE), exist_ok=True)
    json.dump(out, open(prove.BASELINE, "w"), indent=1, sort_keys=True)
    print(f"baseline written: {len(out)} function hashes")
    partial = {}
    for q, ci in spec.CONTRACTS.items():
        if ci.opts.get("partial"):
            try:
                pr = prove.prove_item("contract", q, "thorough", 0)
            except prove.Demoted:
                continue
            failed = {ob.label for ob in pr.failed}
            # only obligations that discharge well inside the quick budget count as "discharged on the baseline"
            partial[q] = sorted({norm_label(l) for l in pr.all_labels if l not in failed and pr.times.get(l, 999) < 12})
            print(f"partial baseline for {q}: {len(partial[q])} discharged, {len(failed)} open")
    json.dump(partial, open(os.path.join(ROOT, "baseline", "partial.json"), "w"), indent=1, sort_keys=True)
    return 0


def main(argv=None):
    ap = argparse.ArgumentParser()
    ap.add_argument("prop", nargs="?")
    ap.add_argument("--tier", default=os.environ.get("VERIF_TIER", "quick"))
    ap.add_argument("--replay")
    ap.add_argument("--list", action="store_true")
    a = ap.parse_args(argv)
    import warnings
    warnings.simplefilter("ignore")
    seed = int(os.environ.get("VERIF_SEED", "0") or 0)
    if a.replay:
        return do_replay(a.replay if os.path.isabs(a.replay) else os.path.join(ROOT, a.replay))
    if a.list:
        loader.load()
        for q, ci in sorted(spec.CONTRACTS.items()):
            print("contract", q, ci.opts.get("props"))
        for n, li in sorted(spec.LEMMAS.items()):
            print("lemma", n, li.opts.get("props"))
        return 0
    if a.prop == "selftest":
        return run_selftest(a.tier, seed)
    if a.prop == "rebaseline":
        return rebaseline()
    if a.prop == "lemmas":
        return run_lemmas()
    try:
        return run_property(a.prop, a.tier if a.tier in ("quick", "thorough") else "quick", seed)
    except SystemExit:
        raise
    except Exception:
        traceback.print_exc()
        return 3


if __name__ == "__main__":
    sys.exit(main())
