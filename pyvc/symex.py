"""Symbolic execution of a Python subset into SMT proof obligations (DESIGN §2).

* spec mode  : pure translation of expressions (contracts, invariants, comprehensions) into terms;
* code mode  : path-splitting execution of statements of the *real* function bodies read from
               /repo with `ast` on every run; calls use the callee's sidecar contract, never its body
               (exception: one-line @property getters are inlined, listed in `ctx.inlined`).

Containers are *views* (length/membership/lookup closures over terms); they are materialised into
SMT datatypes/arrays only when stored in the heap or havocked. Record/Converter are references into
explicit heap arrays, one array per field.
"""
from __future__ import annotations

import ast
import os
import re

from . import smt
from .smt import T, TRUE, FALSE, And, Or, Not, Implies, Eq, Ite, Int, Add, Sub, Lt, Le, Select, Store, ForAll, Exists, app


class Unsupported(Exception):
    """Construct outside the verifier's subset -> the function is demoted to a bounded stand-in."""


# ==========================================================================================
# types
# ==========================================================================================
FIELDS = {
    "Record": {
        "prefix": "str",
        "uri_prefix": "str",
        "prefix_synonyms": ("list", "str"),
        "uri_prefix_synonyms": ("list", "str"),
        "pattern": ("opt", "str"),
    },
    "Converter": {
        "records": ("list", "Record"),
        "prefix_map": ("dict", "str", "str"),
        "synonym_to_prefix": ("dict", "str", "str"),
        "reverse_prefix_map": ("dict", "str", "str"),
        "trie": ("dict", "str", "str"),
        "pattern_map": ("dict", "str", "str"),
        "delimiter": "str",
    },
    "MappingServiceGraph": {"converter": "Converter"},
}
REFTUPLE = ("tuple", ("str", "str"), "ReferenceTuple")
TUPLE_FIELDS = {"ReferenceTuple": ["prefix", "identifier"], "DuplicateSummary": ["record_1", "record_2", "prefix"]}
REF_SORT = {"Record": "Rec", "Converter": "Conv", "MappingServiceGraph": "Msg"}


def parse_ty(s):
    """Parse an annotation string such as 'str|None', 'list[str]', 'ReferenceTuple|None'."""
    s = s.strip().strip("'\"")
    if "|" in s:
        parts = [p.strip() for p in _split_top(s, "|")]
        if "None" in parts:
            rest = [p for p in parts if p != "None"]
            if len(rest) == 1:
                return ("opt", parse_ty(rest[0]))
        raise Unsupported(f"union type {s}")
    if s in ("str", "bool", "int", "Record", "Converter", "MappingServiceGraph"):
        return s
    if s == "None":
        return "none"
    if s == "ReferenceTuple":
        return REFTUPLE
    if s == "DuplicateSummary":
        return ("tuple", ("Record", "Record", "str"), "DuplicateSummary")
    if s == "RecordKey":
        return ("tuple", ("str", "str", "str", "str"), "RecordKey")
    m = re.fullmatch(r"(list|set|List|Set|Sequence|Iterable|Collection)\[(.+)\]", s)
    if m:
        return ("set" if m.group(1).lower() == "set" else "list", parse_ty(m.group(2)))
    m = re.fullmatch(r"(dict|Mapping|Dict)\[(.+)\]", s)
    if m:
        k, v = _split_top(m.group(2), ",")
        return ("dict", parse_ty(k), parse_ty(v))
    m = re.fullmatch(r"tuple\[(.+)\]", s)
    if m:
        return ("tuple", tuple(parse_ty(x) for x in _split_top(m.group(1), ",")), None)
    if s in ("dict", "list"):
        raise Unsupported(f"untyped container annotation {s}")
    raise Unsupported(f"type {s}")


def _split_top(s, sep):
    out, d, cur = [], 0, ""
    for ch in s:
        if ch in "[(":
            d += 1
        if ch in "])":
            d -= 1
        if ch == sep and d == 0:
            out.append(cur)
            cur = ""
        else:
            cur += ch
    out.append(cur)
    return [x.strip() for x in out]


# ==========================================================================================
# symbolic values
# ==========================================================================================
class V:
    pass


class VStr(V):
    def __init__(self, t):
        self.t = t


class VBool(V):
    def __init__(self, t):
        self.t = t


class VInt(V):
    def __init__(self, t):
        self.t = t


class VNone(V):
    pass


class VOpt(V):
    def __init__(self, isnone, val, ty):
        self.isnone, self.val, self.ty = isnone, val, ty


class VTuple(V):
    def __init__(self, items, name=None):
        self.items, self.name = list(items), name


class VList(V):
    """parts: for concatenations, [(offset T, sublist VList)] — equality is then stated part-wise so that
    each part's own element terms trigger the instantiation."""
    def __init__(self, n, at, ety, src=None, parts=None, shift=None):
        self.n, self.at, self.ety, self.src, self.parts = n, at, ety, src, parts
        self.shift = shift    # for tail slices xs[lo:]: (xs, clamped lo) — facts are also stated over the source index


def list_parts(v):
    return v.parts if v.parts is not None else [(Int(0), v)]


def concat_lists(ctx, a, b):
    parts = list_parts(a) + [(Add(a.n, off), sub) for off, sub in list_parts(b)]
    return VList(Add(a.n, b.n), lambda i, a=a, b=b: vite(ctx, Lt(i, a.n), a.at(i), b.at(Sub(i, a.n))), a.ety, parts=parts)


class VSet(V):
    """parts: optional explicit description [('one', V) | ('many', VList)] of a set built by display /
    set(list) / union — lets quantification over the set range over indices instead of elements."""
    def __init__(self, has, ety, src=None, parts=None):
        self.has, self.ety, self.src, self.parts = has, ety, src, parts


class VDict(V):
    def __init__(self, has, get, kty, vty, src=None):
        self.has, self.get, self.kty, self.vty, self.src = has, get, kty, vty, src


class VRef(V):
    def __init__(self, t, cls):
        self.t, self.cls = t, cls


class VExc(V):
    def __init__(self, names):
        self.names = names  # tuple of class names


class VKwargs(V):
    """The contents of a **kwargs parameter, named by the contract (e.g. delimiter, strict)."""
    def __init__(self, items):
        self.items = dict(items)


class VOpaque(V):
    """A value the engine does not interpret (loggers, messages)."""


def _plain(ty):
    """Optional[T] used as a dict value that was filtered truthy is stored as T."""
    return ty[1] if isinstance(ty, tuple) and ty[0] == "opt" else ty


def ty_of(v):
    if isinstance(v, VStr):
        return "str"
    if isinstance(v, VBool):
        return "bool"
    if isinstance(v, VInt):
        return "int"
    if isinstance(v, VNone):
        return "none"
    if isinstance(v, VOpt):
        return ("opt", v.ty)
    if isinstance(v, VTuple):
        return ("tuple", tuple(ty_of(x) for x in v.items), v.name)
    if isinstance(v, VList):
        return ("list", v.ety)
    if isinstance(v, VSet):
        return ("set", v.ety)
    if isinstance(v, VDict):
        return ("dict", v.kty, v.vty)
    if isinstance(v, VRef):
        return v.cls
    raise Unsupported(f"type of {v}")


# ==========================================================================================
# context: declarations, sorts, global assumptions, obligations
# ==========================================================================================
class Obligation:
    def __init__(self, label, kind, hyps, goal, where):
        self.label, self.kind, self.hyps, self.goal, self.where = label, kind, list(hyps), goal, where
        self.status = None
        self.solver = None
        self.solver_output = None
        self.refuted = False
        self.seconds = 0.0


class Ctx:
    def __init__(self, layer="U"):
        self.layer = layer
        self.decls = []
        self.sort_decls = {}
        self.assumptions = []
        self.tags = {}           # id(assumption T) -> tag ('elem' | 'cover'): the two halves of a comprehension characterisation
        self.lits = {}
        self.n = 0
        self.obligations = []
        self.trivial = []        # obligations whose goal normalised to `true` syntactically
        self.bound = []          # stack of bound variables (T) in scope
        self.trusted = set()
        self.inlined = set()
        self.dropped = set()
        self.notes = []

    # -- names
    def fresh_name(self, base):
        self.n += 1
        return f"{re.sub(r'[^A-Za-z0-9_]', '_', base)}!{self.n}"

    def const(self, base, sort):
        name = self.fresh_name(base)
        self.decls.append(f"(declare-const {name} {sort})")
        return T(name, sort)

    def fun(self, base, arg_sorts, sort):
        name = self.fresh_name(base)
        self.decls.append(f"(declare-fun {name} ({' '.join(arg_sorts)}) {sort})")
        return name

    def bvar(self, base, sort):
        return T(self.fresh_name("b_" + base), sort)

    def lit(self, s):
        if s == "":
            return T("empty", "Str")
        if s not in self.lits:
            name = f"lit_{len(self.lits)}"
            self.lits[s] = T(name, "Str")
        return self.lits[s]

    # -- sorts
    def sort(self, ty):
        if ty == "str":
            return "Str"
        if ty == "bool":
            return "Bool"
        if ty == "int":
            return "Int"
        if ty in REF_SORT:
            return REF_SORT[ty]
        if ty == "none":
            return self.sort(("opt", "bool"))
        k = ty[0]
        if k == "opt":
            inner = self.sort(ty[1])
            name = "Opt_" + smt.mangle(inner)
            if name not in self.sort_decls:
                self.sort_decls[name] = f"(declare-datatypes (({name} 0)) (((none_{name}) (some_{name} (val_{name} {inner})))))"
            return name
        if k == "tuple":
            inners = [self.sort(t) for t in ty[1]]
            name = "Tup_" + "_".join(smt.mangle(i) for i in inners)
            if name not in self.sort_decls:
                fields = " ".join(f"(f{i}_{name} {s})" for i, s in enumerate(inners))
                self.sort_decls[name] = f"(declare-datatypes (({name} 0)) (((mk_{name} {fields}))))"
            return name
        if k == "list":
            inner = self.sort(ty[1])
            name = "List_" + smt.mangle(inner)
            if name not in self.sort_decls:
                self.sort_decls[name] = (
                    f"(declare-datatypes (({name} 0)) (((mk_{name} (rawlen_{name} Int) (items_{name} (Array Int {inner}))))))\n"
                    f"(define-fun len_{name} ((l {name})) Int (ite (>= (rawlen_{name} l) 0) (rawlen_{name} l) 0))"
                )
            return name
        if k == "set":
            return smt.arr_sort(self.sort(ty[1]), "Bool")
        if k == "dict":
            ks, vs = self.sort(ty[1]), self.sort(ty[2])
            name = "Dict_" + smt.mangle(ks) + "_" + smt.mangle(vs)
            if name not in self.sort_decls:
                self.sort_decls[name] = f"(declare-datatypes (({name} 0)) (((mk_{name} (dom_{name} (Array {ks} Bool)) (val_{name} (Array {ks} {vs}))))))"
            return name
        raise Unsupported(f"sort of {ty}")

    # -- wrap a term of the sort of `ty` as a view
    def wrap(self, t, ty):
        if ty == "str":
            return VStr(t)
        if ty == "bool":
            return VBool(t)
        if ty == "int":
            return VInt(t)
        if ty in REF_SORT:
            return VRef(t, ty)
        if ty == "none":
            return VNone()
        k = ty[0]
        if k == "opt":
            name = self.sort(ty)
            inner_sort = self.sort(ty[1])
            return VOpt(T(f"((_ is none_{name}) {t.s})", "Bool"), self.wrap(T(f"(val_{name} {t.s})", inner_sort), ty[1]), ty[1])
        if k == "tuple":
            name = self.sort(ty)
            return VTuple([self.wrap(T(f"(f{i}_{name} {t.s})", self.sort(et)), et) for i, et in enumerate(ty[1])], ty[2] if len(ty) > 2 else None)
        if k == "list":
            name = self.sort(ty)
            es = self.sort(ty[1])
            items = T(f"(items_{name} {t.s})", smt.arr_sort("Int", es))
            return VList(T(f"(len_{name} {t.s})", "Int"), lambda i, items=items, ety=ty[1]: self.wrap(Select(items, i), ety), ty[1], src=t)
        if k == "set":
            return VSet(lambda v, t=t, ety=ty[1]: Select(t, self.term(v, ety)), ty[1], src=t)
        if k == "dict":
            name = self.sort(ty)
            ks, vs = self.sort(ty[1]), self.sort(ty[2])
            dom = T(f"(dom_{name} {t.s})", smt.arr_sort(ks, "Bool"))
            val = T(f"(val_{name} {t.s})", smt.arr_sort(ks, vs))
            return VDict(lambda k_, dom=dom: Select(dom, self.term(k_, ty[1])),
                         lambda k_, val=val: self.wrap(Select(val, self.term(k_, ty[1])), ty[2]), ty[1], ty[2], src=t)
        raise Unsupported(f"wrap {ty}")

    def fresh(self, base, ty):
        if ty == "none":
            return VNone()
        return self.wrap(self.const(base, self.sort(ty)), ty)

    # -- materialise a view as a term of the sort of `ty`
    def term(self, v, ty):
        if ty == "str":
            if isinstance(v, VStr):
                return v.t
            if isinstance(v, VOpt) and v.ty == "str":
                return v.val.t
        if ty == "bool" and isinstance(v, VBool):
            return v.t
        if ty == "int" and isinstance(v, VInt):
            return v.t
        if ty in REF_SORT:
            if isinstance(v, VRef):
                return v.t
            if isinstance(v, VOpt) and isinstance(v.val, VRef):
                return v.val.t
        if isinstance(ty, tuple):
            k = ty[0]
            if k == "opt":
                name = self.sort(ty)
                if isinstance(v, VNone):
                    return T(f"none_{name}", name)
                if isinstance(v, VOpt):
                    inner = self.term(v.val, ty[1])
                    return Ite(v.isnone, T(f"none_{name}", name), T(f"(some_{name} {inner.s})", name))
                inner = self.term(v, ty[1])
                return T(f"(some_{name} {inner.s})", name)
            if k == "tuple" and isinstance(v, VTuple) and len(v.items) == len(ty[1]):
                name = self.sort(ty)
                return T(f"(mk_{name} " + " ".join(self.term(x, et).s for x, et in zip(v.items, ty[1])) + ")", name)
            if k == "list" and isinstance(v, VList):
                if v.src is not None and v.src.sort == self.sort(ty):
                    return v.src
                self._need_top("list")
                name = self.sort(ty)
                c = self.const("lst", name)
                w = self.wrap(c, ty)
                self.assumptions.append(veq(self, w, v))      # part-wise for concatenations (ground instances for single elements)
                return c
            if k == "set" and isinstance(v, VSet):
                if v.src is not None and v.src.sort == self.sort(ty):
                    return v.src
                self._need_top("set")
                c = self.const("set", self.sort(ty))
                x = self.bvar("x", self.sort(ty[1]))
                self.assumptions.append(ForAll([x], Eq(Select(c, x), v.has(self.wrap(x, ty[1])))))
                return c
            if k == "dict" and isinstance(v, VDict):
                if v.src is not None and v.src.sort == self.sort(ty):
                    return v.src
                self._need_top("dict")
                c = self.const("dct", self.sort(ty))
                w = self.wrap(c, ty)
                x = self.bvar("k", self.sort(ty[1]))
                xv = self.wrap(x, ty[1])
                self.assumptions.append(ForAll([x], And(Eq(w.has(xv), v.has(xv)), Implies(v.has(xv), veq(self, w.get(xv), v.get(xv))))))
                return c
        raise Unsupported(f"cannot materialise {type(v).__name__} as {ty}")

    def _need_top(self, what):
        if self.bound:
            raise Unsupported(f"materialising a {what} view under a binder")

    def oblige(self, label, kind, pc, goal, where=""):
        if smt.is_true(goal):
            self.trivial.append(label)
            return
        if isinstance(goal.conj, list) and len(goal.conj) > 1:
            # a conjunction is proved conjunct by conjunct (earlier conjuncts become hypotheses of later ones)
            hyps = list(pc)
            for k, g in enumerate(goal.conj):
                if g.conj != "redundant":
                    # (a conjunct marked redundant restates the one before it over another index; it follows from it, so
                    # it is not a goal of its own, only a hypothesis for what comes after)
                    self.oblige(f"{label} [conjunct {k + 1}/{len(goal.conj)}]", kind, hyps, g, where)
                hyps = hyps + [g]
            return
        self.obligations.append(Obligation(label, kind, pc, goal, where))


# ==========================================================================================
# equality / truthiness on views
# ==========================================================================================
def redundant(t):
    """Mark a formula that is a logical consequence of the conjunct stated just before it (same equality, other index)."""
    return T(t.s, t.sort, conj="redundant")


def veq(ctx, a, b, st=None):
    if isinstance(a, VNone) and isinstance(b, VNone):
        return TRUE
    if isinstance(a, VNone):
        a, b = b, a
    if isinstance(b, VNone):
        if isinstance(a, VOpt):
            return a.isnone
        return FALSE
    if isinstance(a, VOpt) and isinstance(b, VOpt):
        return Or(And(a.isnone, b.isnone), And(Not(a.isnone), Not(b.isnone), veq(ctx, a.val, b.val, st)))
    if isinstance(a, VOpt):
        return And(Not(a.isnone), veq(ctx, a.val, b, st))
    if isinstance(b, VOpt):
        return And(Not(b.isnone), veq(ctx, a, b.val, st))
    if isinstance(a, (VStr, VBool, VInt)) and type(a) is type(b):
        return Eq(a.t, b.t)
    if isinstance(a, VTuple) and isinstance(b, VTuple):
        if len(a.items) != len(b.items):
            return FALSE
        return And(*[veq(ctx, x, y, st) for x, y in zip(a.items, b.items)])
    if isinstance(a, VList) and isinstance(b, VList):
        if a.parts is not None and b.parts is None:
            a, b = b, a
        if b.parts is not None and a.parts is None:
            out = [Eq(a.n, b.n)]
            for off, sub in b.parts:
                if re.fullmatch(r"\d+", sub.n.s) and int(sub.n.s) <= 3:
                    for k in range(int(sub.n.s)):
                        out.append(veq(ctx, a.at(Add(off, Int(k))), sub.at(Int(k)), st))
                    continue
                j = ctx.bvar("j", "Int")
                ctx.bound.append(j)
                try:
                    body = veq(ctx, a.at(Add(off, j)), sub.at(j), st)
                finally:
                    ctx.bound.pop()
                out.append(ForAll([j], Implies(And(Le(Int(0), j), Lt(j, sub.n)), body)))
                if not (re.fullmatch(r"\d+", off.s) and int(off.s) == 0) and os.environ.get("PYVC_NO_REINDEX") is None:
                    # the same, indexed by the position in the whole list (an element term a[u] then triggers it;
                    # the offset form a[off + j] cannot be matched against a[u])
                    u = ctx.bvar("u", "Int")
                    ctx.bound.append(u)
                    try:
                        body_u = veq(ctx, a.at(u), sub.at(Sub(u, off)), st)
                    finally:
                        ctx.bound.pop()
                    out.append(redundant(ForAll([u], Implies(And(Le(off, u), Lt(u, Add(off, sub.n))), body_u))))
            return And(*out)
        i = ctx.bvar("i", "Int")
        ctx.bound.append(i)
        try:
            body = veq(ctx, a.at(i), b.at(i), st)
        finally:
            ctx.bound.pop()
        extra = []
        for x_, y_ in ((a, b), (b, a)):
            if getattr(x_, "shift", None) is not None and getattr(y_, "shift", None) is None:
                # x_ = base[lo:]: the same equality indexed by the position in base (element terms of base then trigger it)
                base_, lo_ = x_.shift
                u = ctx.bvar("u", "Int")
                ctx.bound.append(u)
                try:
                    body_u = veq(ctx, y_.at(Sub(u, lo_)), base_.at(u), st)
                finally:
                    ctx.bound.pop()
                extra.append(redundant(ForAll([u], Implies(And(Le(lo_, u), Lt(u, base_.n)), body_u))))
        return And(Eq(a.n, b.n), ForAll([i], Implies(And(Le(Int(0), i), Lt(i, a.n)), body)), *extra)
    if isinstance(a, VSet) and isinstance(b, VSet):
        if a.parts is not None and b.parts is not None:
            return And(subset_by_parts(ctx, a, b), subset_by_parts(ctx, b, a))
        x = ctx.bvar("x", ctx.sort(a.ety))
        xv = ctx.wrap(x, a.ety)
        return ForAll([x], Eq(a.has(xv), b.has(xv)))
    if isinstance(a, VDict) and isinstance(b, VDict):
        x = ctx.bvar("k", ctx.sort(a.kty))
        xv = ctx.wrap(x, a.kty)
        ctx.bound.append(x)
        try:
            body = And(Eq(a.has(xv), b.has(xv)), Implies(a.has(xv), veq(ctx, a.get(xv), b.get(xv), st)))
        finally:
            ctx.bound.pop()
        return ForAll([x], body)
    if isinstance(a, VRef) and isinstance(b, VRef):
        if a.cls != b.cls:
            return FALSE
        if a.cls == "Record" and st is not None:
            # pydantic BaseModel.__eq__: same class and equal field values
            return And(*[veq(ctx, st.field(ctx, a, f), st.field(ctx, b, f), st) for f in FIELDS["Record"]])
        return Eq(a.t, b.t)
    if type(a) is not type(b):
        return FALSE
    raise Unsupported(f"equality of {type(a).__name__}")


def subset_by_parts(ctx, a, b):
    """a <= b for a set with an explicit description: every described element of a is in b (index quantifiers only)."""
    out = []
    for pk, pv in a.parts:
        if pk == "one":
            out.append(b.has(pv))
        else:
            i = ctx.bvar("i", "Int")
            ctx.bound.append(i)
            try:
                out.append(ForAll([i], Implies(And(Le(Int(0), i), Lt(i, pv.n)), b.has(pv.at(i)))))
            finally:
                ctx.bound.pop()
    return And(*out)


def vis(ctx, a, b):
    """Python `is`."""
    if isinstance(a, VRef) or isinstance(b, VRef) or (isinstance(a, VOpt) and isinstance(a.val, VRef)) or (isinstance(b, VOpt) and isinstance(b.val, VRef)):
        return veq(ctx, a, b, None)
    if isinstance(a, VNone) or isinstance(b, VNone):
        return veq(ctx, a, b, None)
    if isinstance(a, VBool) and isinstance(b, VBool):
        return Eq(a.t, b.t)
    if type(a) is not type(b) and not isinstance(a, VOpt) and not isinstance(b, VOpt):
        return FALSE
    raise Unsupported("`is` on non-reference values")


def truthy(ctx, v):
    if isinstance(v, VBool):
        return v.t
    if isinstance(v, VNone):
        return FALSE
    if isinstance(v, VStr):
        return Not(Eq(v.t, T("empty", "Str")))
    if isinstance(v, VInt):
        return Not(Eq(v.t, Int(0)))
    if isinstance(v, VOpt):
        return And(Not(v.isnone), truthy(ctx, v.val))
    if isinstance(v, VTuple):
        return TRUE if v.items else FALSE
    if isinstance(v, VList):
        return Lt(Int(0), v.n)
    if isinstance(v, VSet):
        x = ctx.bvar("x", ctx.sort(v.ety))
        return Exists([x], v.has(ctx.wrap(x, v.ety)))
    if isinstance(v, VDict):
        x = ctx.bvar("k", ctx.sort(v.kty))
        return Exists([x], v.has(ctx.wrap(x, v.kty)))
    if isinstance(v, VRef):
        return TRUE
    raise Unsupported(f"truthiness of {type(v).__name__}")


def vite(ctx, c, a, b):
    """if-then-else on views of the same shape."""
    if smt.is_true(c):
        return a
    if smt.is_false(c):
        return b
    if isinstance(a, VNone) and isinstance(b, VNone):
        return a
    if isinstance(a, (VStr, VBool, VInt)) and type(a) is type(b):
        return type(a)(Ite(c, a.t, b.t))
    if isinstance(a, VRef) and isinstance(b, VRef) and a.cls == b.cls:
        return VRef(Ite(c, a.t, b.t), a.cls)
    if isinstance(a, VTuple) and isinstance(b, VTuple) and len(a.items) == len(b.items):
        return VTuple([vite(ctx, c, x, y) for x, y in zip(a.items, b.items)], a.name)
    # optional joins
    def as_opt(v, other):
        if isinstance(v, VOpt):
            return v
        if isinstance(v, VNone):
            o = other.val if isinstance(other, VOpt) else other
            return VOpt(TRUE, o, ty_of(o))
        return VOpt(FALSE, v, ty_of(v))
    if isinstance(a, (VOpt, VNone)) or isinstance(b, (VOpt, VNone)):
        if isinstance(a, VNone) and isinstance(b, VNone):
            return a
        ao, bo = as_opt(a, b), as_opt(b, a)
        return VOpt(Ite(c, ao.isnone, bo.isnone), vite(ctx, c, ao.val, bo.val), ao.ty)
    if isinstance(a, VList) and isinstance(b, VList):
        out = VList(Ite(c, a.n, b.n), lambda i: vite(ctx, c, a.at(i), b.at(i)), a.ety)
        out.ite_of = (c, a, b)       # membership distributes over the choice (keeps each side's own structure)
        return out
    if isinstance(a, VSet) and isinstance(b, VSet):
        return VSet(lambda x: Ite(c, a.has(x), b.has(x)), a.ety)
    if isinstance(a, VDict) and isinstance(b, VDict):
        return VDict(lambda k: Ite(c, a.has(k), b.has(k)), lambda k: vite(ctx, c, a.get(k), b.get(k)), a.kty, a.vty)
    raise Unsupported(f"join of {type(a).__name__} and {type(b).__name__}")


# ==========================================================================================
# state
# ==========================================================================================
class State:
    def __init__(self, env=None, heap=None, pc=()):
        self.env = dict(env or {})
        self.heap = dict(heap or {})
        self.pc = tuple(pc)
        self.exc = None

    def copy(self):
        s = State(self.env, self.heap, self.pc)
        s.exc = self.exc
        return s

    def assume(self, t):
        if smt.is_true(t):
            return self
        s = self.copy()
        # conjunctions are kept as separate hypotheses (smaller asserts; enables relevance filtering)
        s.pc = self.pc + tuple(t.conj if isinstance(t.conj, list) and t.conj else [t])
        return s

    def harr(self, ctx, cls, f):
        key = (cls, f)
        if key not in self.heap:
            # initial heaps are shared symbols: the same name for every state of this verification
            name = f"H0_{cls}_{f}"
            sort = smt.arr_sort(REF_SORT[cls], ctx.sort(FIELDS[cls][f]))
            decl = f"(declare-const {name} {sort})"
            if decl not in ctx.decls:
                ctx.decls.append(decl)
            self.heap[key] = T(name, sort)
        return self.heap[key]

    def alloc_arr(self, ctx, cls):
        key = ("alloc", cls)
        if key not in self.heap:
            name = f"A0_{cls}"
            sort = smt.arr_sort(REF_SORT[cls], "Bool")
            decl = f"(declare-const {name} {sort})"
            if decl not in ctx.decls:
                ctx.decls.append(decl)
            self.heap[key] = T(name, sort)
        return self.heap[key]

    def is_alloc(self, ctx, ref):
        return Select(self.alloc_arr(ctx, ref.cls), ref.t)

    def allocate(self, ctx, cls, base="new"):
        """A fresh reference: not allocated before, allocated afterwards."""
        r = VRef(ctx.const(base + "_" + cls, REF_SORT[cls]), cls)
        s = self.assume(Not(self.is_alloc(ctx, r)))
        s.heap[("alloc", cls)] = Store(self.alloc_arr(ctx, cls), r.t, TRUE)
        return s, r

    def field(self, ctx, ref, f):
        if f not in FIELDS[ref.cls]:
            raise Unsupported(f"field {ref.cls}.{f}")
        return ctx.wrap(Select(self.harr(ctx, ref.cls, f), ref.t), FIELDS[ref.cls][f])

    def set_field(self, ctx, ref, f, v):
        s = self.copy()
        arr = self.harr(ctx, ref.cls, f)
        s.heap[(ref.cls, f)] = Store(arr, ref.t, ctx.term(v, FIELDS[ref.cls][f]))
        return s


# ==========================================================================================
# repository model: functions, classes, exception hierarchy (read from /repo every run)
# ==========================================================================================
BUILTIN_EXC = {
    "Exception": None, "ValueError": "Exception", "KeyError": "LookupError", "LookupError": "Exception",
    "IndexError": "LookupError", "TypeError": "Exception", "StopIteration": "Exception",
    "RuntimeError": "Exception", "NotImplementedError": "RuntimeError", "AttributeError": "Exception",
    "ValidationError": "ValueError", "AssertionError": "Exception", "OSError": "Exception",
}


class Repo:
    def __init__(self, root):
        import os
        self.root = root
        self.modules = {}
        self.funcs = {}      # qualname -> (FunctionDef, module, class or None)
        self.classes = {}    # (module, class) -> ClassDef
        self.exc = dict(BUILTIN_EXC)
        self.src = {}
        base = os.path.join(root, "src", "curies")
        for dirpath, _, files in os.walk(base):
            for f in files:
                if not f.endswith(".py"):
                    continue
                path = os.path.join(dirpath, f)
                mod = os.path.relpath(path, base)[:-3].replace(os.sep, ".")
                if mod.endswith(".__init__"):
                    mod = mod[: -len(".__init__")]
                src = open(path).read()
                self.src[mod] = src
                try:
                    tree = ast.parse(src)
                except SyntaxError:
                    continue
                self.modules[mod] = tree
                for node in tree.body:
                    if isinstance(node, ast.FunctionDef):
                        self.funcs[f"{mod}.{node.name}"] = (node, mod, None)
                    elif isinstance(node, ast.ClassDef):
                        self.classes[(mod, node.name)] = node
                        bases = [b.id for b in node.bases if isinstance(b, ast.Name)]
                        if bases:
                            self.exc.setdefault(node.name, bases[0])
                        for sub in node.body:
                            if isinstance(sub, ast.FunctionDef):
                                if any(isinstance(d, ast.Name) and d.id == "overload" for d in sub.decorator_list):
                                    continue
                                self.funcs[f"{mod}.{node.name}.{sub.name}"] = (sub, mod, node.name)

    def subclass(self, a, b):
        """a is b or derives from b."""
        seen = set()
        while a is not None and a not in seen:
            if a == b:
                return True
            seen.add(a)
            a = self.exc.get(a)
        return False

    def source_of(self, qualname):
        node, mod, _ = self.funcs[qualname]
        return ast.get_source_segment(self.src[mod], node)


# ==========================================================================================
# the translator
# ==========================================================================================
class Outcome:
    def __init__(self, kind, value=None, exc=None):
        self.kind, self.value, self.exc = kind, value, exc   # normal | return | raise | break | continue


class Engine:
    def __init__(self, repo, ctx, helpers, contracts, contract_opts, invariants=None, lib_contracts=None):
        self.repo = repo
        self.ctx = ctx
        self.helpers = helpers          # name -> FunctionDef (spec helpers, macro-expanded)
        self.contracts = contracts      # qualname -> FunctionDef (sidecar contract)
        self.copts = contract_opts      # qualname -> opts
        self.invariants = invariants or {}
        self.module = "api"
        self.cur_func = None
        self.loop_counter = 0
        self.loop_stack = []
        self.old_stack = []          # (marker name, pre-state, pre-env) for old(...) / _pre(...)
        self.cur_func_node = None
        self.cur_class = None
        self.spec_sides = None          # list collecting (cond T, exc name) in code mode
        self.in_spec = 0

    # ---------------------------------------------------------------- spec-mode expressions
    def ev(self, node, env, st):
        m = getattr(self, "ev_" + type(node).__name__, None)
        if m is None:
            raise Unsupported(f"expression {type(node).__name__}: {ast.unparse(node)[:60]}")
        return m(node, env, st)

    def side(self, cond, exc):
        if self.spec_sides is not None and not self.in_spec:
            # quantify over binders in scope
            bound = list(self.ctx.bound)
            if bound:
                guards = getattr(self, "_guards", [])
                cond = ForAll(bound, Implies(And(*guards), cond))
            self.spec_sides.append((cond, exc))

    def ev_Constant(self, node, env, st):
        v = node.value
        if isinstance(v, bool):
            return VBool(TRUE if v else FALSE)
        if v is None:
            return VNone()
        if isinstance(v, str):
            return VStr(self.ctx.lit(v))
        if isinstance(v, int):
            return VInt(Int(v))
        raise Unsupported(f"constant {v!r}")

    def ev_Name(self, node, env, st):
        n = node.id
        if n in env:
            return env[n]
        if n in self.repo.exc:
            return VExc((n,))
        if n in ("DEFAULT_DELIMITERS", "DEFAULT_DELIMS"):
            # DEFAULT_DELIMS: the specification's delimiter priority ('#', '/', '_') (sidecar constant);
            # DEFAULT_DELIMITERS: the module constant, read from the current source of curies.discovery on every run
            vals = ("#", "/", "_")
            if n == "DEFAULT_DELIMITERS":
                vals = None
                for node_ in getattr(self.repo.modules.get("discovery"), "body", []):
                    if isinstance(node_, ast.Assign) and len(node_.targets) == 1 and isinstance(node_.targets[0], ast.Name) \
                            and node_.targets[0].id == "DEFAULT_DELIMITERS":
                        try:
                            vals = tuple(ast.literal_eval(node_.value))
                        except (ValueError, SyntaxError):
                            vals = None
                if not vals or not all(isinstance(x, str) for x in vals):
                    raise Unsupported("DEFAULT_DELIMITERS is not a literal tuple of strings in curies.discovery")
            out = None
            for x in vals:
                one = VList(Int(1), lambda i, x=x: VStr(self.ctx.lit(x)), "str")
                out = one if out is None else concat_lists(self.ctx, out, one)
            return out
        raise Unsupported(f"name {n}")

    def ev_Tuple(self, node, env, st):
        items = [self.ev(e, env, st) for e in node.elts]
        if items and all(isinstance(i, VExc) for i in items):
            return VExc(tuple(n for i in items for n in i.names))
        return VTuple(items)

    def ev_JoinedStr(self, node, env, st):
        out = None
        for part in node.values:
            if isinstance(part, ast.Constant):
                v = VStr(self.ctx.lit(part.value))
            elif isinstance(part, ast.FormattedValue) and part.format_spec is None and part.conversion == -1:
                v = self.ev(part.value, env, st)
                if not isinstance(v, VStr):
                    raise Unsupported("f-string piece that is not a str")
            else:
                raise Unsupported("f-string format spec")
            out = v if out is None else VStr(app("cat", out.t, v.t, sort="Str"))
        return out or VStr(self.ctx.lit(""))

    def ev_Attribute(self, node, env, st):
        base = self.ev(node.value, env, st)
        return self.getattr(base, node.attr, env, st)

    def getattr(self, base, attr, env, st):
        if isinstance(base, VOpt) and isinstance(base.val, (VRef, VTuple)):
            self.side(Not(base.isnone), "AttributeError")
            base = base.val
        if isinstance(base, VRef):
            if attr in FIELDS[base.cls]:
                return st.field(self.ctx, base, attr)
            # inline one-line property getters of the real class
            q = f"api.{base.cls}.{attr}"
            if q in self.repo.funcs:
                fn = self.repo.funcs[q][0]
                if any(isinstance(d, ast.Name) and d.id == "property" for d in fn.decorator_list):
                    body = [s for s in fn.body if not (isinstance(s, ast.Expr) and isinstance(s.value, ast.Constant))]
                    if len(body) == 1 and isinstance(body[0], ast.Return):
                        self.ctx.inlined.add(q)
                        return self.ev(body[0].value, {"self": base}, st)
            raise Unsupported(f"attribute {base.cls}.{attr}")
        if isinstance(base, VTuple) and base.name in TUPLE_FIELDS and attr in TUPLE_FIELDS[base.name]:
            return base.items[TUPLE_FIELDS[base.name].index(attr)]
        if isinstance(base, VTuple) and base.name == "ReferenceTuple" and attr == "curie":
            return VStr(app("cat", app("cat", base.items[0].t, self.ctx.lit(":"), sort="Str"), base.items[1].t, sort="Str"))
        raise Unsupported(f"attribute .{attr} on {type(base).__name__}")

    def ev_Subscript(self, node, env, st):
        base = self.ev(node.value, env, st)
        if isinstance(base, VOpt):
            self.side(Not(base.isnone), "TypeError")
            base = base.val
        sl = node.slice
        if isinstance(sl, ast.Slice):
            if sl.step is not None:
                raise Unsupported("slice step")
            lo = self.ev(sl.lower, env, st) if sl.lower is not None else None
            hi = self.ev(sl.upper, env, st) if sl.upper is not None else None
            if isinstance(base, VStr):
                if lo is not None and hi is None:
                    return VStr(app("suffix_from", base.t, lo.t, sort="Str"))
                if lo is None and hi is not None:
                    return VStr(app("prefix_to", base.t, hi.t, sort="Str"))
                raise Unsupported("two-sided string slice")
            if isinstance(base, VList):
                if lo is None and hi is not None:
                    n = Ite(Lt(hi.t, base.n), Ite(Lt(hi.t, Int(0)), Int(0), hi.t), base.n)
                    parts = None
                    if base.parts is not None:
                        # keep the concatenation structure: part (off, sub) contributes its first n-off elements
                        parts = []
                        for off, sub in base.parts:
                            k = Sub(n, off)
                            kn = Ite(Lt(k, Int(0)), Int(0), Ite(Lt(k, sub.n), k, sub.n))
                            parts.append((off, VList(kn, sub.at, sub.ety)))
                    return VList(n, base.at, base.ety, parts=parts)
                if lo is not None and hi is None:
                    l0 = Ite(Lt(lo.t, base.n), Ite(Lt(lo.t, Int(0)), Int(0), lo.t), base.n)
                    return VList(Sub(base.n, l0), lambda i: base.at(Add(i, l0)), base.ety, shift=(base, l0))
                raise Unsupported("two-sided list slice")
            raise Unsupported("slice of " + type(base).__name__)
        idx = self.ev(sl, env, st)
        if isinstance(base, VTuple):
            if isinstance(idx, VInt) and re.fullmatch(r"\d+", idx.t.s):
                k = int(idx.t.s)
                if k >= len(base.items):
                    raise Unsupported("tuple index out of range")
                return base.items[k]
            raise Unsupported("symbolic tuple index")
        if isinstance(base, VList):
            if isinstance(idx, VInt):
                neg = re.fullmatch(r"\(- (\d+)\)", idx.t.s)
                if neg:
                    k = int(neg.group(1))
                    self.side(Le(Int(k), base.n), "IndexError")
                    return base.at(Sub(base.n, Int(k)))
                self.side(And(Le(Int(0), idx.t), Lt(idx.t, base.n)), "IndexError")
                return base.at(idx.t)
        if isinstance(base, VDict):
            dflt = getattr(base, "default", None)
            if dflt is not None:
                if getattr(base, "empty", False):
                    return VList(Int(0), lambda i: VStr(T("empty", "Str")), "str") if dflt == "list" else VSet(lambda x: FALSE, "str", parts=[])
                empty = VList(Int(0), lambda i: base.get(idx).at(i), base.vty[1]) if dflt == "list" else VSet(lambda x: FALSE, base.vty[1], parts=[])
                return vite(self.ctx, base.has(idx), base.get(idx), empty)
            self.side(base.has(idx), "KeyError")
            return base.get(idx)
        raise Unsupported(f"subscript of {type(base).__name__}")

    def ev_UnaryOp(self, node, env, st):
        if isinstance(node.op, ast.Not):
            return VBool(Not(truthy(self.ctx, self.ev(node.operand, env, st))))
        if isinstance(node.op, ast.USub):
            v = self.ev(node.operand, env, st)
            if isinstance(v, VInt):
                return VInt(Sub(Int(0), v.t) if not re.fullmatch(r"\d+", v.t.s) else Int(-int(v.t.s)))
        raise Unsupported("unary op")

    def ev_BoolOp(self, node, env, st):
        vals = []
        guards_added = 0
        old_guards = list(getattr(self, "_guards", []))
        try:
            for e in node.values:
                v = self.ev(e, env, st)
                vals.append(v)
                # later operands are evaluated only if earlier ones allow: record as guard for side conditions
                g = truthy(self.ctx, v)
                if (isinstance(node.op, ast.And) and smt.is_false(g)) or (isinstance(node.op, ast.Or) and smt.is_true(g)):
                    break   # Python would not evaluate the remaining operands
                self._guards = getattr(self, "_guards", []) + [g if isinstance(node.op, ast.And) else Not(g)]
        finally:
            self._guards = old_guards
        if all(isinstance(v, VBool) for v in vals):
            f = And if isinstance(node.op, ast.And) else Or
            return VBool(f(*[v.t for v in vals]))
        # value-returning and/or
        try:
            out = vals[-1]
            for v in reversed(vals[:-1]):
                t = truthy(self.ctx, v)
                out = vite(self.ctx, t, out, v) if isinstance(node.op, ast.And) else vite(self.ctx, t, v, out)
            return out
        except Unsupported:
            # operands of different types: only meaningful in a boolean context -> truthiness
            f = And if isinstance(node.op, ast.And) else Or
            return VBool(f(*[truthy(self.ctx, v) for v in vals]))

    def ev_IfExp(self, node, env, st):
        c = truthy(self.ctx, self.ev(node.test, env, st))
        old_guards = list(getattr(self, "_guards", []))
        try:
            self._guards = old_guards + [c]
            a = self.ev(node.body, env, st)
            self._guards = old_guards + [Not(c)]
            b = self.ev(node.orelse, env, st)
        finally:
            self._guards = old_guards
        return vite(self.ctx, c, a, b)

    def ev_Compare(self, node, env, st):
        left = self.ev(node.left, env, st)
        out = []
        for op, rnode in zip(node.ops, node.comparators):
            right = self.ev(rnode, env, st)
            out.append(self.compare(op, left, right, st))
            left = right
        return VBool(And(*out))

    def compare(self, op, a, b, st):
        c = self.ctx
        if isinstance(op, ast.Eq):
            return veq(c, a, b, st)
        if isinstance(op, ast.NotEq):
            return Not(veq(c, a, b, st))
        if isinstance(op, ast.Is):
            return vis(c, a, b)
        if isinstance(op, ast.IsNot):
            return Not(vis(c, a, b))
        if isinstance(op, (ast.In, ast.NotIn)):
            r = self.contains(b, a, st)
            return r if isinstance(op, ast.In) else Not(r)
        if isinstance(a, VInt) and isinstance(b, VInt):
            if isinstance(op, ast.Lt):
                return Lt(a.t, b.t)
            if isinstance(op, ast.LtE):
                return Le(a.t, b.t)
            if isinstance(op, ast.Gt):
                return Lt(b.t, a.t)
            if isinstance(op, ast.GtE):
                return Le(b.t, a.t)
        if isinstance(a, VSet) and isinstance(b, VSet) and isinstance(op, ast.LtE):
            if a.parts is not None:
                return subset_by_parts(c, a, b)
            x = c.bvar("x", c.sort(a.ety))
            xv = c.wrap(x, a.ety)
            return ForAll([x], Implies(a.has(xv), b.has(xv)))
        if isinstance(a, VStr) and isinstance(b, VStr):
            le = lambda x, y: app("str_le", x, y, sort="Bool")
            if isinstance(op, ast.LtE):
                return le(a.t, b.t)
            if isinstance(op, ast.Lt):
                return And(le(a.t, b.t), Not(Eq(a.t, b.t)))
            if isinstance(op, ast.GtE):
                return le(b.t, a.t)
            if isinstance(op, ast.Gt):
                return And(le(b.t, a.t), Not(Eq(a.t, b.t)))
        raise Unsupported(f"comparison {type(op).__name__} on {type(a).__name__}")

    def contains(self, container, x, st):
        c = self.ctx
        container = self.unopt(container)
        if isinstance(container, VStr):
            if isinstance(x, VStr):
                return app("contains", container.t, x.t, sort="Bool")
        if isinstance(container, VSet):
            return container.has(x)
        if isinstance(container, VDict):
            return container.has(x)
        if isinstance(container, VList) and getattr(container, "ite_of", None) is not None:
            cond, a_, b_ = container.ite_of
            return Ite(cond, self.contains(a_, x, st), self.contains(b_, x, st))
        if isinstance(container, VList) and container.parts is not None:
            return Or(*[self.contains(sub, x, st) for off, sub in container.parts])
        if isinstance(container, VList):
            if re.fullmatch(r"\d+", container.n.s) and int(container.n.s) <= 3:
                return Or(*[veq(c, container.at(Int(k)), x, st) for k in range(int(container.n.s))])
            if getattr(container, "shift", None) is not None:
                base_, lo_ = container.shift
                u = c.bvar("u", "Int")
                c.bound.append(u)
                try:
                    body = veq(c, base_.at(u), x, st)
                finally:
                    c.bound.pop()
                return Exists([u], And(Le(lo_, u), Lt(u, base_.n), body))
            i = c.bvar("i", "Int")
            c.bound.append(i)
            try:
                body = veq(c, container.at(i), x, st)
            finally:
                c.bound.pop()
            return Exists([i], And(Le(Int(0), i), Lt(i, container.n), body))
        if isinstance(container, VTuple):
            return Or(*[veq(c, it, x, st) for it in container.items])
        raise Unsupported(f"`in` on {type(container).__name__}")

    def unopt(self, v, exc="TypeError"):
        """Use of an Optional value where a plain one is needed: safety condition `is not None`."""
        if isinstance(v, VOpt):
            self.side(Not(v.isnone), exc)
            return v.val
        return v

    def ev_BinOp(self, node, env, st):
        a = self.unopt(self.ev(node.left, env, st))
        b = self.unopt(self.ev(node.right, env, st))
        c = self.ctx
        if isinstance(node.op, ast.Add):
            if isinstance(a, VStr) and isinstance(b, VStr):
                return VStr(app("cat", a.t, b.t, sort="Str"))
            if isinstance(a, VInt) and isinstance(b, VInt):
                return VInt(Add(a.t, b.t))
            if isinstance(a, VList) and isinstance(b, VList):
                return concat_lists(c, a, b)
        if isinstance(node.op, ast.Sub):
            if isinstance(a, VInt) and isinstance(b, VInt):
                return VInt(Sub(a.t, b.t))
            if isinstance(a, VSet) and isinstance(b, VSet):
                return VSet(lambda x: And(a.has(x), Not(b.has(x))), a.ety)
        if isinstance(node.op, ast.BitOr) and isinstance(a, VSet) and isinstance(b, VSet):
            parts = (a.parts + b.parts) if (a.parts is not None and b.parts is not None) else None
            return VSet(lambda x: Or(a.has(x), b.has(x)), a.ety, parts=parts)
        if isinstance(node.op, ast.BitAnd) and isinstance(a, VSet) and isinstance(b, VSet):
            return VSet(lambda x: And(a.has(x), b.has(x)), a.ety)
        raise Unsupported(f"binary op {type(node.op).__name__} on {type(a).__name__}, {type(b).__name__}")

    def ev_Set(self, node, env, st):
        parts = []
        ety = None
        for e in node.elts:
            if isinstance(e, ast.Starred):
                v = self.ev(e.value, env, st)
                parts.append(("many", v))
                ety = ety or v.ety
            else:
                v = self.ev(e, env, st)
                parts.append(("one", v))
                ety = ety or ty_of(v)

        def has(x):
            return Or(*[(veq(self.ctx, v, x, st) if k == "one" else self.contains(v, x, st)) for k, v in parts])
        flat = []
        for k, v in parts:
            if k == "one" or isinstance(v, VList):
                flat.append((k, v))
            elif isinstance(v, VSet) and v.parts is not None:
                flat += v.parts
            else:
                flat = None
                break
        return VSet(has, ety, parts=flat)

    def ev_List(self, node, env, st):
        c = self.ctx
        out = None
        for e in node.elts:
            if isinstance(e, ast.Starred):
                v = self.ev(e.value, env, st)
                if not isinstance(v, VList):
                    raise Unsupported("starred non-list")
            else:
                x = self.ev(e, env, st)
                v = VList(Int(1), lambda i, x=x: x, ty_of(x))
            if out is None:
                out = v
            else:
                out = concat_lists(c, out, v)
        if out is None:
            junk = self.ctx.fresh("junk", "str")
            lst = VList(Int(0), lambda i: junk, "str")
            lst.empty = True
            return lst
        return out

    def ev_Dict(self, node, env, st):
        if node.keys:
            # {k1: v1, ...} with constant string keys and values of one type; later entries win
            if any(k is None or not (isinstance(k, ast.Constant) and isinstance(k.value, str)) for k in node.keys):
                raise Unsupported("dict display with non-constant keys")
            items = [(self.ev(k, env, st), self.ev(v, env, st)) for k, v in zip(node.keys, node.values)]
            tys = {repr(ty_of(v)) for _, v in items}
            if len(tys) != 1:
                raise Unsupported("heterogeneous dict display")
            c = self.ctx

            def get(k, items=items):
                out = items[0][1]
                for kk, vv in items[1:]:
                    out = vite(c, veq(c, k, kk), vv, out)
                return out
            return VDict(lambda k, items=items: Or(*[veq(c, k, kk) for kk, _ in items]), get, "str", ty_of(items[0][1]))
        junk = self.ctx.fresh("junk", "str")
        d = VDict(lambda k: FALSE, lambda k: junk, "str", "str")
        d.empty = True
        return d

    # ---- generators -> quantifiers -----------------------------------------------------
    def iter_bind(self, gen_iter, target, env, st):
        """Returns a list of alternative sources (bound vars, guard T, env additions) for `for target in gen_iter`."""
        c = self.ctx
        # special iterables
        if isinstance(gen_iter, ast.Call):
            fn = gen_iter.func
            fname = fn.id if isinstance(fn, ast.Name) else (fn.attr if isinstance(fn, ast.Attribute) else None)
            if fname == "enumerate" and isinstance(fn, ast.Name):
                xs = self.ev(gen_iter.args[0], env, st)
                start = 0
                for kw in gen_iter.keywords:
                    if kw.arg == "start":
                        start = ast.literal_eval(kw.value)
                if len(gen_iter.args) > 1:
                    start = ast.literal_eval(gen_iter.args[1])
                if not isinstance(xs, VList):
                    raise Unsupported("enumerate over non-list")
                if xs.n.s == "0":
                    return []
                i = c.bvar("i", "Int")
                v = VTuple([VInt(Add(i, Int(start))), xs.at(i)])
                return [([i], And(Le(Int(0), i), Lt(i, xs.n)), self.bind_target(target, v))]
            if fname == "range" and isinstance(fn, ast.Name):
                args = [self.ev(a, env, st) for a in gen_iter.args]
                lo, hi = (Int(0), args[0].t) if len(args) == 1 else (args[0].t, args[1].t)
                i = c.bvar("i", "Int")
                return [([i], And(Le(lo, i), Lt(i, hi)), self.bind_target(target, VInt(i)))]
            if fname == "combinations" and len(gen_iter.args) == 2 and ast.literal_eval(gen_iter.args[1]) == 2:
                xs = self.ev(gen_iter.args[0], env, st)
                i, j = c.bvar("i", "Int"), c.bvar("j", "Int")
                v = VTuple([xs.at(i), xs.at(j)])
                return [([i, j], And(Le(Int(0), i), Lt(i, j), Lt(j, xs.n)), self.bind_target(target, v))]
            if fname == "product" and len(gen_iter.args) == 2:
                a = self.ev(gen_iter.args[0], env, st)
                b = self.ev(gen_iter.args[1], env, st)
                return [(v1 + v2, And(g1, g2), self.bind_target(target, VTuple([x1, x2])))
                        for v1, g1, x1 in self.iter_sources(a) for v2, g2, x2 in self.iter_sources(b)]
            if fname in ("items", "values", "keys") and isinstance(fn, ast.Attribute) and not gen_iter.args:
                d = self.ev(fn.value, env, st)
                if isinstance(d, VDict):
                    k = c.bvar("k", c.sort(d.kty))
                    kv = c.wrap(k, d.kty)
                    val = {"items": lambda: VTuple([kv, d.get(kv)]), "values": lambda: d.get(kv), "keys": lambda: kv}[fname]()
                    return [([k], d.has(kv), self.bind_target(target, val))]
        xs = self.ev(gen_iter, env, st)
        return [(vs, g, self.bind_target(target, x)) for vs, g, x in self.iter_sources(xs)]

    def iter_sources(self, xs):
        """Alternatives (vars, guard, element) that together enumerate xs: concatenations and sets with an
        explicit description are enumerated part by part, so every part is indexed by its own variable."""
        if isinstance(xs, VOpt):
            xs = xs.val
        if isinstance(xs, VList) and xs.n.s == "0":
            return []          # iteration over a literally empty list: no sources
        if isinstance(xs, VList) and xs.parts is not None:
            out = []
            for off, sub in xs.parts:
                if re.fullmatch(r"\d+", sub.n.s) and int(sub.n.s) <= 3:
                    for k in range(int(sub.n.s)):
                        out.append(([], TRUE, sub.at(Int(k))))
                else:
                    out += self.iter_sources(sub)
            return out
        if isinstance(xs, VSet) and xs.parts is not None:
            out = []
            for pk, pv in xs.parts:
                if pk == "one":
                    out.append(([], TRUE, pv))
                else:
                    out += self.iter_sources(pv)
            return out
        return [self.iter_value(xs)]

    def iter_value(self, xs):
        c = self.ctx
        if isinstance(xs, VOpt):
            xs = xs.val
        if isinstance(xs, VList):
            i = c.bvar("i", "Int")
            return [i], And(Le(Int(0), i), Lt(i, xs.n)), xs.at(i)
        if isinstance(xs, VSet):
            x = c.bvar("x", c.sort(xs.ety))
            xv = c.wrap(x, xs.ety)
            return [x], xs.has(xv), xv
        if isinstance(xs, VDict):
            x = c.bvar("k", c.sort(xs.kty))
            xv = c.wrap(x, xs.kty)
            return [x], xs.has(xv), xv
        if isinstance(xs, VTuple):
            raise Unsupported("iteration over a tuple in a quantifier")
        raise Unsupported(f"iteration over {type(xs).__name__}")

    def bind_target(self, target, v):
        if isinstance(target, ast.Name):
            return {target.id: v}
        if isinstance(target, ast.Tuple):
            if isinstance(v, VTuple) and len(v.items) == len(target.elts):
                out = {}
                for t, x in zip(target.elts, v.items):
                    out.update(self.bind_target(t, x))
                return out
            if (isinstance(v, VList) and len(target.elts) == 2 and isinstance(target.elts[0], ast.Name)
                    and isinstance(target.elts[1], ast.Starred) and isinstance(target.elts[1].value, ast.Name)):
                # (first, *rest) bound to a list: ValueError when it is empty
                self.side(Le(Int(1), v.n), "ValueError")
                rest = VList(Sub(v.n, Int(1)), lambda i, v=v: v.at(Add(i, Int(1))), v.ety, shift=(v, Int(1)))
                return {target.elts[0].id: v.at(Int(0)), target.elts[1].value.id: rest}
        raise Unsupported("binding target")

    def comp(self, generators, env, st, body_fn, kind):
        """kind: 'all' | 'any'. body_fn(env) -> T Bool. Handles nested generators left to right."""
        c = self.ctx

        def one_source(k, env_, g, vs, guard, add):
            env2 = dict(env_)
            env2.update(add)
            c.bound.extend(vs)
            old_guards = list(getattr(self, "_guards", []))
            try:
                self._guards = old_guards + [guard]
                conds = []
                for cnd in g.ifs:
                    t = truthy(c, self.ev(cnd, env2, st))
                    conds.append(t)
                    self._guards = self._guards + [t]
                inner = rec(k + 1, env2)
            finally:
                self._guards = old_guards
                for _ in vs:
                    c.bound.pop()
            if kind == "all":
                g_ = And(guard, *conds)
                if isinstance(inner.conj, list) and len(inner.conj) > 1:
                    # forall x. (A and B)  ==  (forall x. A) and (forall x. B): smaller goals and hypotheses
                    return And(*[(redundant(ForAll(vs, Implies(g_, cj))) if cj.conj == "redundant" else ForAll(vs, Implies(g_, cj)))
                                 for cj in inner.conj])
                return ForAll(vs, Implies(g_, inner))
            return Exists(vs, And(guard, *conds, inner))

        def rec(k, env_):
            if k == len(generators):
                return body_fn(env_)
            g = generators[k]
            outs = [one_source(k, env_, g, vs, guard, add) for vs, guard, add in self.iter_bind(g.iter, g.target, env_, st)]
            return And(*outs) if kind == "all" else Or(*outs)
        return rec(0, env)

    def ev_GeneratorExp(self, node, env, st):
        raise Unsupported("bare generator expression")

    def ev_SetComp(self, node, env, st):
        ety_box = []

        def has(x):
            def body(env2):
                e = self.ev(node.elt, env2, st)
                if not ety_box:
                    ety_box.append(ty_of(e))
                return veq(self.ctx, e, x, st)
            return self.comp(node.generators, env, st, body, "any")
        # probe element type
        probe = self.ctx.bvar("probe", "Int")
        try:
            self.comp(node.generators, env, st, lambda env2: (ety_box.append(ty_of(self.ev(node.elt, env2, st))) or TRUE), "any")
        except Unsupported:
            raise
        return VSet(has, ety_box[0])

    def ev_ListComp(self, node, env, st):
        c = self.ctx
        if len(node.generators) == 1 and not node.generators[0].ifs:
            g = node.generators[0]
            src = None
            if not isinstance(g.iter, ast.Call):
                src = self.ev(g.iter, env, st)
            if isinstance(src, VOpt):
                src = src.val
            if isinstance(src, VList) and src.n.s == "0":
                return src
            if isinstance(src, VList):
                def at(i, src=src):
                    env2 = dict(env)
                    env2.update(self.bind_target(g.target, src.at(i)))
                    return self.ev(node.elt, env2, st)
                # element type probe
                i0 = c.bvar("i", "Int")
                c.bound.append(i0)
                old_guards = list(getattr(self, "_guards", []))
                try:
                    self._guards = old_guards + [And(Le(Int(0), i0), Lt(i0, src.n))]
                    ety = ty_of(at(i0))
                finally:
                    self._guards = old_guards
                    c.bound.pop()
                return VList(src.n, at, ety)
        return self.general_listcomp(node, env, st)

    def general_listcomp(self, node, env, st):
        """[elt for ... if ...] with filters / nested generators: a fresh list characterised by membership
        (every element comes from a source tuple passing the filters; every such tuple contributes an
        element). Order and multiplicity are left unspecified, which is all the contracts rely on."""
        c = self.ctx
        if c.bound:
            raise Unsupported("filtered / nested list comprehension under a binder")
        ety_box = []
        self.comp(node.generators, env, st, lambda env2: (ety_box.append(ty_of(self.ev(node.elt, env2, st))) or TRUE), "any")
        if not ety_box:
            raise Unsupported("cannot type the comprehension element")
        ety = ety_box[0]
        L = c.fresh("lc", ("list", ety))
        j = c.bvar("j", "Int")
        c.bound.append(j)
        try:
            src_exists = self.comp(node.generators, env, st, lambda env2: veq(c, L.at(j), self.ev(node.elt, env2, st), None), "any")
        finally:
            c.bound.pop()
        a_elem = ForAll([j], Implies(And(Le(Int(0), j), Lt(j, L.n)), src_exists))
        c.assumptions.append(a_elem)
        c.tags[id(a_elem)] = "elem"
        # the instance at index 0 explicitly (non-emptiness is usually asked through len() only)
        zero = self.comp(node.generators, env, st, lambda env2: veq(c, L.at(Int(0)), self.ev(node.elt, env2, st), None), "any")
        c.assumptions.append(Implies(Lt(Int(0), L.n), zero))

        def covered(env2):
            e = self.ev(node.elt, env2, st)
            k = c.bvar("k", "Int")
            return Exists([k], And(Le(Int(0), k), Lt(k, L.n), veq(c, L.at(k), e, None)))
        a_cover = self.comp(node.generators, env, st, covered, "all")
        c.assumptions.append(a_cover)
        c.tags[id(a_cover)] = "cover"
        return L

    def ev_DictComp(self, node, env, st):
        """{k: v for x in xs if c}: domain = keys of passing sources; value = that of the LAST passing source
        with this key (sources must range over one list so that 'last' is an index comparison)."""
        c = self.ctx
        if c.bound:
            raise Unsupported("dict comprehension under a binder")
        if len(node.generators) != 1:
            raise Unsupported("dict comprehension over nested generators")
        g = node.generators[0]
        if isinstance(g.iter, ast.Call) and isinstance(g.iter.func, ast.Attribute) and g.iter.func.attr == "items":
            src_d = self.ev(g.iter.func.value, env, st)
            if not isinstance(src_d, VDict):
                raise Unsupported("dict comprehension over .items() of a non-dict")
            # keys of a dict are distinct: a source is identified by its key
            kb = c.bvar("k", c.sort(src_d.kty))
            kv = c.wrap(kb, src_d.kty)
            def at_src(kv_):
                env2 = dict(env)
                env2.update(self.bind_target(g.target, VTuple([kv_, src_d.get(kv_)])))
                ok = And(src_d.has(kv_), *[truthy(c, self.ev(cn, env2, st)) for cn in g.ifs])
                return ok, self.ev(node.key, env2, st), self.ev(node.value, env2, st)
            ok0, key0, val0 = at_src(kv)
            D = c.fresh("dc", ("dict", ty_of(key0), _plain(ty_of(val0))))
            x = c.bvar("x", c.sort(D.kty))
            xv = c.wrap(x, D.kty)
            c.assumptions.append(ForAll([x], Eq(D.has(xv), Exists([kb], And(ok0, veq(c, key0, xv, st))))))
            # value: if the key expression is injective on sources the value is determined; we state it for
            # sources whose key is produced by no other passing source
            kb2 = c.bvar("k2", c.sort(src_d.kty))
            ok2, key2, _ = at_src(c.wrap(kb2, src_d.kty))
            unique = ForAll([kb2], Implies(And(ok2, veq(c, key2, key0, st)), Eq(kb2, kb)))
            c.assumptions.append(ForAll([kb], Implies(And(ok0, unique), veq(c, D.get(key0), val0, st))))
            return D
        xs = self.ev(g.iter, env, st)
        if isinstance(xs, VOpt):
            xs = xs.val
        if not isinstance(xs, VList):
            raise Unsupported("dict comprehension over " + type(xs).__name__)

        def at(i):
            env2 = dict(env)
            env2.update(self.bind_target(g.target, xs.at(i)))
            ok = And(Le(Int(0), i), Lt(i, xs.n), *[truthy(c, self.ev(cn, env2, st)) for cn in g.ifs])
            return ok, self.ev(node.key, env2, st), self.ev(node.value, env2, st)
        i = c.bvar("i", "Int")
        ok0, key0, val0 = at(i)
        D = c.fresh("dc", ("dict", ty_of(key0), _plain(ty_of(val0))))
        x = c.bvar("x", c.sort(D.kty))
        xv = c.wrap(x, D.kty)
        c.assumptions.append(ForAll([x], Eq(D.has(xv), Exists([i], And(ok0, veq(c, key0, xv, st))))))
        j = c.bvar("j", "Int")
        okj, keyj, _ = at(j)
        last = ForAll([j], Implies(And(Lt(i, j), okj), Not(veq(c, keyj, key0, st))))
        c.assumptions.append(ForAll([i], Implies(And(ok0, last), veq(c, D.get(key0), val0, st))))
        return D

    # ---- calls (pure builtins, helpers, string methods) ----------------------------------
    def ev_Call(self, node, env, st):
        c = self.ctx
        fn = node.func
        if isinstance(fn, ast.Name):
            name = fn.id
            if name in env and isinstance(env[name], V):
                raise Unsupported(f"call of value {name}")
            if name in self.helpers:
                return self.call_helper(name, node, env, st)
            if name in ("any", "all") and len(node.args) == 1:
                a = node.args[0]
                if isinstance(a, (ast.GeneratorExp, ast.ListComp)):
                    return VBool(self.comp(a.generators, env, st, lambda env2: truthy(c, self.ev(a.elt, env2, st)), name))
                xs = self.ev(a, env, st)
                vs, g, x = self.iter_value(xs)
                t = truthy(c, x)
                return VBool(ForAll(vs, Implies(g, t)) if name == "all" else Exists(vs, And(g, t)))
            if self.old_stack and name == self.old_stack[-1][0] and len(node.args) == 1:
                marker, pre_state, pre_env = self.old_stack[-1]
                env2 = dict(pre_env) if pre_env is not None else {}
                env2.update(env)       # bound variables and lets of the enclosing scope
                if pre_env is not None:
                    # names of the function's parameters denote their entry values
                    for k_, v_ in pre_env.items():
                        if k_ in self.fn_pre_env:
                            env2[k_] = v_
                self.old_stack.append(("\0none", None, None))     # no nested old()
                try:
                    return self.ev(node.args[0], env2, pre_state)
                finally:
                    self.old_stack.pop()
            if name == "isinstance" and len(node.args) == 2 and isinstance(node.args[1], ast.Name) and node.args[1].id in FIELDS:
                # decided by the declared (annotated) type of the value: objects are of exactly their declared class
                v = self.ev(node.args[0], env, st)
                if isinstance(v, VRef):
                    self.ctx.trusted.add("isinstance(x, C) decided by the annotated type of x")
                    return VBool(TRUE if v.cls == node.args[1].id else FALSE)
                raise Unsupported("isinstance on " + type(v).__name__)
            if name == "isinstance" and len(node.args) == 2 and isinstance(node.args[1], ast.Name) and node.args[1].id in ("str", "dict"):
                v = self.ev(node.args[0], env, st)
                if isinstance(v, (VStr, VDict)):
                    self.ctx.trusted.add("isinstance(x, C) decided by the annotated type of x")
                    return VBool(TRUE if isinstance(v, VStr) == (node.args[1].id == "str") else FALSE)
                raise Unsupported("isinstance on " + type(v).__name__)
            if name in ("_fresh", "_alloc") and len(node.args) == 1:
                v = self.unopt(self.ev(node.args[0], env, st))
                if not isinstance(v, VRef):
                    raise Unsupported(name + " of a non-reference")
                if name == "_alloc":
                    return VBool(st.is_alloc(c, v))
                return VBool(Not(self.fn_pre.is_alloc(c, v)))
            if name == "_frame" and not node.args:
                # every object allocated at function entry still has its entry field values
                return VBool(And(*[cond for _, cond in self.frame_condition([], self.fn_pre, st)]))
            if name == "len" and len(node.args) == 1:
                v = self.unopt(self.ev(node.args[0], env, st))
                if isinstance(v, VStr):
                    return VInt(app("slen", v.t, sort="Int"))
                if isinstance(v, VList):
                    return VInt(v.n)
                if isinstance(v, VTuple):
                    return VInt(Int(len(v.items)))
                if isinstance(v, (VDict, VSet)):
                    return VInt(self.cardinality(v))
                raise Unsupported(f"len of {type(v).__name__}")
            if name == "next" and len(node.args) == 1 and isinstance(node.args[0], ast.Call) and isinstance(node.args[0].func, ast.Name) \
                    and node.args[0].func.id == "iter" and len(node.args[0].args) == 1:
                d = self.ev(node.args[0].args[0], env, st)
                if not isinstance(d, (VDict, VSet)):
                    raise Unsupported("next(iter(x)) of " + type(d).__name__)
                ety = d.kty if isinstance(d, VDict) else d.ety
                k = c.fresh("first", ety)
                x = c.bvar("x", c.sort(ety))
                nonempty = Exists([x], d.has(c.wrap(x, ety)))
                if c.bound:
                    raise Unsupported("next(iter(x)) under a binder")
                c.assumptions.append(Implies(nonempty, d.has(k)))
                self.side(nonempty, "StopIteration")
                return k
            if name == "next" and len(node.args) == 1 and isinstance(node.args[0], ast.GeneratorExp):
                return self.ev_next(node.args[0], env, st)
            if name == "next" and len(node.args) == 2 and isinstance(node.args[0], ast.GeneratorExp):
                return self.ev_next(node.args[0], env, st, default=node.args[1])
            if name == "set" and len(node.args) <= 1:
                if not node.args:
                    return VSet(lambda x: FALSE, "str")
                a = node.args[0]
                if isinstance(a, ast.GeneratorExp):
                    return self.ev_SetComp(ast.SetComp(elt=a.elt, generators=a.generators), env, st)
                v = self.ev(a, env, st)
                if isinstance(v, VSet):
                    return v
                if isinstance(v, VList):
                    return VSet(lambda x, v=v: self.contains(v, x, st), v.ety, parts=[("many", v)])
                if isinstance(v, VDict):
                    return VSet(lambda x, v=v: v.has(x), v.kty)
                raise Unsupported("set() of " + type(v).__name__)
            if name in ("URIRef", "str") and len(node.args) == 1:
                v = self.ev(node.args[0], env, st)
                if isinstance(v, VStr):
                    return v          # rdflib.URIRef is a str subclass; str(x) of a str is x
                raise Unsupported(name + "() of " + type(v).__name__)
            if name == "_is_valid_uri" and len(node.args) == 1:
                if not self.in_spec:
                    # in code the name must still be rdflib's: imported from rdflib.term, not redefined in the module
                    mtree = self.repo.modules.get(getattr(self, "module", None))
                    imported = any(isinstance(n_, ast.ImportFrom) and n_.module == "rdflib.term"
                                   and any(a_.name == "_is_valid_uri" and a_.asname is None for a_ in n_.names)
                                   for n_ in getattr(mtree, "body", []))
                    redefined = any(isinstance(n_, (ast.FunctionDef, ast.ClassDef)) and n_.name == "_is_valid_uri"
                                    or (isinstance(n_, ast.Assign) and any(isinstance(t_, ast.Name) and t_.id == "_is_valid_uri" for t_ in n_.targets))
                                    for n_ in getattr(mtree, "body", []))
                    if not imported or redefined:
                        raise Unsupported("_is_valid_uri is no longer rdflib.term._is_valid_uri in this module")
                v = self.ev(node.args[0], env, st)
                self.ctx.trusted.add("rdflib.term._is_valid_uri is a (side-effect free) predicate on strings")
                return VBool(app("valid_uri", v.t, sort="Bool"))
            if name == "bool" and len(node.args) == 1:
                return VBool(truthy(c, self.ev(node.args[0], env, st)))
            if name == "cast" and len(node.args) == 2:
                return self.ev(node.args[1], env, st)
            if name == "cls" and self.cur_class == "ReferenceTuple" and len(node.args) == 2 and not node.keywords:
                return VTuple([self.ev(a, env, st) for a in node.args], "ReferenceTuple")
            if name == "ReferenceTuple" and len(node.args) == 2:
                return VTuple([self.ev(a, env, st) for a in node.args], "ReferenceTuple")
            if name == "DuplicateSummary" and len(node.args) == 3:
                return VTuple([self.ev(a, env, st) for a in node.args], "DuplicateSummary")
            if name == "list" and len(node.args) == 1:
                v = self.ev(node.args[0], env, st)
                if isinstance(v, VList):
                    return VList(v.n, v.at, v.ety)
            if name == "dict" and len(node.args) == 1:
                v = self.ev(node.args[0], env, st)
                if isinstance(v, VDict):
                    return VDict(v.has, v.get, v.kty, v.vty)
            if name == "defaultdict" and len(node.args) == 1 and isinstance(node.args[0], ast.Name) and node.args[0].id in ("list", "set"):
                junk = c.fresh("junk", "str")
                d = VDict(lambda k: FALSE, lambda k: junk, "str", "str")
                d.empty = True
                d.default = node.args[0].id
                return d
            if name == "sorted":
                raise Unsupported("sorted() in spec position")
            raise Unsupported(f"call {name}(...)")
        if isinstance(fn, ast.Attribute):
            recv = self.unopt(self.ev(fn.value, env, st), "AttributeError")
            m = fn.attr
            if isinstance(recv, VStr):
                if m == "join" and len(node.args) == 1:
                    a0 = node.args[0]
                    inner = a0.args[0] if (isinstance(a0, ast.Call) and isinstance(a0.func, ast.Name) and a0.func.id == "sorted" and len(a0.args) == 1 and not a0.keywords) else None
                    if inner is not None:
                        lst = self.ev(inner, env, st)
                        if isinstance(lst, VList) and lst.ety == "str" and lst.src is not None:
                            self.ctx.need_join_sorted = True
                            return VStr(app("join_sorted", recv.t, lst.src, sort="Str"))
                    raise Unsupported("str.join form")
            args = [self.ev(a, env, st) for a in node.args]
            if isinstance(recv, VStr):
                if m == "startswith" and len(args) == 1 and isinstance(args[0], VStr):
                    return VBool(app("prefixof", args[0].t, recv.t, sort="Bool"))
                if m == "endswith" and len(args) == 1 and isinstance(args[0], VStr):
                    return VBool(app("suffixof", args[0].t, recv.t, sort="Bool"))
                if m == "partition" and len(args) == 1:
                    d = args[0].t
                    self.side(Not(Eq(d, T("empty", "Str"))), "ValueError")
                    has = app("contains", recv.t, d, sort="Bool")
                    return VTuple([VStr(app("part_before", recv.t, d, sort="Str")), VStr(Ite(has, d, T("empty", "Str"))), VStr(app("part_after", recv.t, d, sort="Str"))])
                if m == "casefold" and not args:
                    return VStr(app("casefold", recv.t, sort="Str"))
                if m == "isalnum" and not args:
                    return VBool(app("isalnum", recv.t, sort="Bool"))
                if m == "rsplit" and (len(args) == 2 or (len(args) == 1 and node.keywords)):
                    d = args[0].t
                    self.side(Not(Eq(d, T("empty", "Str"))), "ValueError")
                    has = app("contains", recv.t, d, sort="Bool")
                    # list of 2 when the separator occurs, else [recv]
                    two = VList(Int(2), lambda i: VStr(Ite(Eq(i, Int(0)), app("rpart_before", recv.t, d, sort="Str"), app("rpart_after", recv.t, d, sort="Str"))), "str")
                    one = VList(Int(1), lambda i: recv, "str")
                    return vite(c, has, two, one)
            if isinstance(recv, VSet):
                if m == "isdisjoint" and len(args) == 1 and recv.parts is not None:
                    outs = []
                    for pk, pv in recv.parts:
                        if pk == "one":
                            outs.append(Not(self.contains(args[0], pv, st)))
                        else:
                            i = c.bvar("i", "Int")
                            c.bound.append(i)
                            try:
                                outs.append(ForAll([i], Implies(And(Le(Int(0), i), Lt(i, pv.n)), Not(self.contains(args[0], pv.at(i), st)))))
                            finally:
                                c.bound.pop()
                    return VBool(And(*outs))
                if m == "isdisjoint" and len(args) == 1:
                    x = c.bvar("x", c.sort(recv.ety))
                    xv = c.wrap(x, recv.ety)
                    return VBool(ForAll([x], Not(And(recv.has(xv), self.contains(args[0], xv, st)))))
                if m in ("union", "intersection", "difference") and len(args) == 1:
                    o = args[0]
                    f = {"union": lambda a, b: Or(a, b), "intersection": lambda a, b: And(a, b), "difference": lambda a, b: And(a, Not(b))}[m]
                    parts = None
                    if m == "union" and recv.parts is not None:
                        if isinstance(o, VSet) and o.parts is not None:
                            parts = recv.parts + o.parts
                        elif isinstance(o, VList):
                            parts = recv.parts + [("many", o)]
                    out_set = VSet(lambda x, o=o: f(recv.has(x), self.contains(o, x, st)), recv.ety, parts=parts)
                    # a description of a SUPERSET survives intersection / difference: used to index the elements
                    out_set.super_parts = parts if parts is not None else (recv.parts if recv.parts is not None else getattr(recv, "super_parts", None))
                    return out_set
                if m == "issubset" and len(args) == 1 and recv.parts is not None and isinstance(args[0], VSet):
                    return VBool(subset_by_parts(c, recv, args[0]))
                if m == "issubset" and len(args) == 1:
                    x = c.bvar("x", c.sort(recv.ety))
                    xv = c.wrap(x, recv.ety)
                    return VBool(ForAll([x], Implies(recv.has(xv), self.contains(args[0], xv, st))))
            if isinstance(recv, VDict):
                if m == "get" and len(args) in (1, 2):
                    k = args[0]
                    dflt = args[1] if len(args) == 2 else VNone()
                    return vite(c, recv.has(k), recv.get(k), dflt)
                if m == "keys" and not args:
                    return VSet(recv.has, recv.kty)
                if m == "values" and not args:
                    def has(x):
                        k = c.bvar("k", c.sort(recv.kty))
                        kv = c.wrap(k, recv.kty)
                        return Exists([k], And(recv.has(kv), veq(c, recv.get(kv), x, st)))
                    return VSet(has, recv.vty)
            raise Unsupported(f"method .{m} on {type(recv).__name__}")
        raise Unsupported("call form")

    def cardinality(self, v):
        """len() of a dict / set: an integer constrained enough for comparisons with 0, 1 and 2."""
        c = self.ctx
        if c.bound:
            raise Unsupported("len() of a dict/set under a binder")
        ety = v.kty if isinstance(v, VDict) else v.ety
        n = c.const("card", "Int")
        a, b = c.bvar("a", c.sort(ety)), c.bvar("b", c.sort(ety))
        av, bv = c.wrap(a, ety), c.wrap(b, ety)
        c.assumptions.append(Le(Int(0), n))
        c.assumptions.append(Eq(Eq(n, Int(0)), Not(Exists([a], v.has(av)))))
        c.assumptions.append(Eq(Le(Int(2), n), Exists([a, b], And(v.has(av), v.has(bv), Not(veq(c, av, bv))))))
        return n

    def ev_next(self, gen, env, st, default=None):
        c = self.ctx
        if len(gen.generators) != 1:
            raise Unsupported("next over nested generators")
        g = gen.generators[0]
        xs = self.ev(g.iter, env, st)
        if isinstance(xs, VOpt) and isinstance(xs.val, VList):
            xs = xs.val
        if not isinstance(xs, VList):
            raise Unsupported("next over non-list")

        def cond_at(i):
            env2 = dict(env)
            env2.update(self.bind_target(g.target, xs.at(i)))
            return And(*[truthy(c, self.ev(cn, env2, st)) for cn in g.ifs])

        i = c.bvar("i", "Int")
        probe = cond_at(i)
        used = [b for b in c.bound if re.search(r"(?<![\w.!$])" + re.escape(b.s) + r"(?![\w.!$])", probe.s + " " + xs.n.s)]
        # the same first-match expression (same list, same condition up to the names of bound variables) denotes the
        # same index: reuse the Skolem function, otherwise facts about one evaluation do not transfer to the next
        norm = probe.s + " @ " + xs.n.s
        norm = norm.replace(i.s, "?i")
        for k_, b in enumerate(used):
            norm = norm.replace(b.s, f"?b{k_}")
        norm = re.sub(r"b_\w+!\d+", "?q", norm)       # inner binders of the condition
        cache = getattr(c, "next_cache", None)
        if cache is None:
            cache = c.next_cache = {}
        key = (norm, tuple(b.sort for b in used))
        first_use = key not in cache
        if first_use:
            cache[key] = c.fun("nx", [b.sort for b in used], "Int")
        sk = cache[key]
        idx = app(sk, *used, sort="Int") if used else T(sk, "Int")
        j = c.bvar("j", "Int")
        rng = lambda t: And(Le(Int(0), t), Lt(t, xs.n))
        exists = Exists([i], And(rng(i), probe))
        if first_use:
            ax = Implies(exists, And(rng(idx), cond_at(idx), ForAll([j], Implies(And(Le(Int(0), j), Lt(j, idx)), Not(cond_at(j))))))
            c.assumptions.append(ForAll(used, ax) if used else ax)
        env2 = dict(env)
        env2.update(self.bind_target(g.target, xs.at(idx)))
        if default is not None:
            return vite(c, exists, self.ev(gen.elt, env2, st), self.ev(default, env, st))
        self.side(exists, "StopIteration")
        return self.ev(gen.elt, env2, st)

    def call_helper(self, name, node, env, st):
        fn = self.helpers[name]
        if name == "_is_valid_uri" and len(node.args) == 1:
            v = self.ev(node.args[0], env, st)
            self.ctx.trusted.add("rdflib.term._is_valid_uri is a (side-effect free) predicate on strings")
            return VBool(app("valid_uri", v.t, sort="Bool"))
        if name == "first_occ":
            a, b = [self.ev(x, env, st) for x in node.args]
            return VBool(app("first_occ", a.t, b.t, sort="Bool"))
        params = [a.arg for a in fn.args.args]
        args = [self.ev(a, env, st) for a in node.args]
        if len(args) < len(params) and len(params) - len(args) <= len(fn.args.defaults):
            for d in fn.args.defaults[len(fn.args.defaults) - (len(params) - len(args)):]:
                args.append(self.ev(d, {}, st))
        if len(args) != len(params):
            raise Unsupported(f"helper {name} arity")
        body = [s for s in fn.body if not (isinstance(s, ast.Expr) and isinstance(s.value, ast.Constant))]
        if len(body) != 1 or not isinstance(body[0], ast.Return):
            raise Unsupported(f"helper {name} is not a single return")
        self.in_spec += 1
        try:
            return self.ev(body[0].value, dict(zip(params, args)), st)
        finally:
            self.in_spec -= 1
