"""SMT-LIB term construction, theory preambles (Layer U / Layer S) and the solver portfolio.

Terms are immutable (sexpr text, sort text) pairs; no solver API is used in-process, every query is
SMT-LIB 2 text handed to the CLIs with a hard wall-clock limit.
"""
from __future__ import annotations

import hashlib
import os
import re
import subprocess
import tempfile
import time


class T:
    __slots__ = ("s", "sort", "conj")

    def __init__(self, s, sort, conj=None):
        self.s = s
        self.sort = sort
        self.conj = conj      # for conjunctions: the list of conjuncts (lets goals be split into obligations)

    def __repr__(self):
        return f"T({self.s}:{self.sort})"


TRUE = T("true", "Bool")
FALSE = T("false", "Bool")


def is_true(t):
    return t.s == "true"


def is_false(t):
    return t.s == "false"


def app(f, *args, sort):
    if not args:
        return T(f, sort)
    return T("(" + f + " " + " ".join(a.s for a in args) + ")", sort)


def And(*ts):
    flat = []
    for t in ts:
        if is_false(t):
            return FALSE
        if is_true(t):
            continue
        flat.append(t)
    if not flat:
        return TRUE
    if len(flat) == 1:
        return flat[0]
    conj = []
    for t in flat:
        conj += t.conj if isinstance(t.conj, list) and t.conj else [t]
    return T("(and " + " ".join(t.s for t in flat) + ")", "Bool", conj=conj)


def Or(*ts):
    flat = []
    for t in ts:
        if is_true(t):
            return TRUE
        if is_false(t):
            continue
        flat.append(t)
    if not flat:
        return FALSE
    if len(flat) == 1:
        return flat[0]
    return T("(or " + " ".join(t.s for t in flat) + ")", "Bool")


def Not(t):
    if is_true(t):
        return FALSE
    if is_false(t):
        return TRUE
    if t.s.startswith("(not ") and t.s.endswith(")") and _balanced(t.s[5:-1]):
        return T(t.s[5:-1], "Bool")
    return T("(not " + t.s + ")", "Bool")


def _balanced(s):
    d = 0
    for i, ch in enumerate(s):
        if ch == "(":
            d += 1
        elif ch == ")":
            d -= 1
            if d == 0 and i != len(s) - 1:
                return False
        elif ch == " " and d == 0:
            return False
    return d == 0


def Implies(a, b):
    if is_true(a):
        return b
    if is_false(a) or is_true(b):
        return TRUE
    if is_false(b):
        return Not(a)
    return T(f"(=> {a.s} {b.s})", "Bool")


def Eq(a, b):
    if a.sort != b.sort:
        raise TypeError(f"Eq sorts differ: {a} vs {b}")
    if a.s == b.s:
        return TRUE
    return T(f"(= {a.s} {b.s})", "Bool")


def Ite(c, a, b):
    if is_true(c):
        return a
    if is_false(c):
        return b
    if a.sort != b.sort:
        raise TypeError(f"Ite sorts differ: {a} vs {b}")
    if a.s == b.s:
        return a
    return T(f"(ite {c.s} {a.s} {b.s})", a.sort)


def Int(n):
    return T(str(n) if n >= 0 else f"(- {-n})", "Int")


def Add(a, b):
    if b.s == "0":
        return a
    if a.s == "0":
        return b
    if re.fullmatch(r"\d+", a.s) and re.fullmatch(r"\d+", b.s):
        return Int(int(a.s) + int(b.s))
    return T(f"(+ {a.s} {b.s})", "Int")


def Sub(a, b):
    if b.s == "0":
        return a
    return T(f"(- {a.s} {b.s})", "Int")


def Lt(a, b):
    return T(f"(< {a.s} {b.s})", "Bool")


def Le(a, b):
    return T(f"(<= {a.s} {b.s})", "Bool")


def Select(arr, i):
    m = re.fullmatch(r"\(Array (.+)\)", arr.sort)
    dom, rng = split_sorts(m.group(1))
    return T(f"(select {arr.s} {i.s})", rng)


def Store(arr, i, v):
    return T(f"(store {arr.s} {i.s} {v.s})", arr.sort)


def split_sorts(s):
    """Split 'A (Array B C)' into ['A', '(Array B C)']."""
    out, d, cur = [], 0, ""
    for ch in s:
        if ch == "(":
            d += 1
        if ch == ")":
            d -= 1
        if ch == " " and d == 0:
            if cur:
                out.append(cur)
            cur = ""
        else:
            cur += ch
    if cur:
        out.append(cur)
    return out


def arr_sort(dom, rng):
    return f"(Array {dom} {rng})"


_qid = [0]


def Quant(q, vars_, body, pats=None):
    """vars_: list of T constants (bound variables). Drops unused variables."""
    if is_true(body) or is_false(body):
        return body
    vs = [v for v in vars_ if re.search(r"(?<![\w.!$])" + re.escape(v.s) + r"(?![\w.!$])", body.s)]
    if not vs:
        return body
    decl = " ".join(f"({v.s} {v.sort})" for v in vs)
    if pats:
        pats = [pat for pat in pats if not any("(ite " in p.s for p in pat)]
    if pats:
        ps = " ".join(":pattern (" + " ".join(p.s for p in pat) + ")" for pat in pats)
        return T(f"({q} ({decl}) (! {body.s} {ps}))", "Bool")
    return T(f"({q} ({decl}) {body.s})", "Bool")


def ForAll(vars_, body, pats=None):
    return Quant("forall", vars_, body, pats)


def Exists(vars_, body):
    return Quant("exists", vars_, body)


def mangle(sort):
    return re.sub(r"[^A-Za-z0-9]+", "_", sort).strip("_")


# ------------------------------------------------------------------------------------------
# String theory: Layer U (uninterpreted + axioms) and Layer S (native definitions)
# ------------------------------------------------------------------------------------------
STR_SIG_U = """
(declare-sort Str 0)
(declare-fun cat (Str Str) Str)
(declare-fun slen (Str) Int)
(declare-fun prefixof (Str Str) Bool)
(declare-fun suffixof (Str Str) Bool)
(declare-fun suffix_from (Str Int) Str)
(declare-fun prefix_to (Str Int) Str)
(declare-fun contains (Str Str) Bool)
(declare-fun part_before (Str Str) Str)
(declare-fun part_after (Str Str) Str)
(declare-fun rpart_before (Str Str) Str)
(declare-fun rpart_after (Str Str) Str)
(declare-fun first_occ (Str Str) Bool)
(declare-fun casefold (Str) Str)
(declare-fun isalnum (Str) Bool)
(declare-fun str_le (Str Str) Bool)
(declare-fun str_of_int (Int) Str)
(declare-fun valid_uri (Str) Bool)
(declare-const empty Str)
"""

# Layer S: the same symbols *defined* in the SMT-LIB string theory (what Python's str does).
STR_SIG_S = """
(define-sort Str () String)
(define-fun cat ((a String) (b String)) String (str.++ a b))
(define-fun slen ((a String)) Int (str.len a))
(define-fun prefixof ((a String) (u String)) Bool (str.prefixof a u))
(define-fun suffixof ((a String) (u String)) Bool (str.suffixof a u))
(define-fun suffix_from ((u String) (n Int)) String (str.substr u n (str.len u)))
(define-fun prefix_to ((u String) (n Int)) String (str.substr u 0 n))
(define-fun contains ((c String) (d String)) Bool (str.contains c d))
(define-fun part_before ((c String) (d String)) String (ite (str.contains c d) (str.substr c 0 (str.indexof c d 0)) c))
(define-fun part_after ((c String) (d String)) String (ite (str.contains c d) (str.substr c (+ (str.indexof c d 0) (str.len d)) (str.len c)) ""))
(define-fun first_occ ((p String) (d String)) Bool (= (str.indexof (str.++ p d) d 0) (str.len p)))
(declare-fun casefold (String) String)
(declare-fun isalnum (String) Bool)
(define-fun str_le ((a String) (b String)) Bool (str.<= a b))
(define-fun empty () String "")
"""

# Each axiom: (name, smt text using the signature above). Every one is proved in Layer S on each
# run of `./check lemmas` (and by the per-property checks that use it) before it is trusted.
STR_AXIOMS = [
    ("len_nonneg", "(forall ((a Str)) (! (>= (slen a) 0) :pattern ((slen a))))"),
    ("len_empty", "(= (slen empty) 0)"),
    ("len_zero_is_empty", "(forall ((a Str)) (! (=> (= (slen a) 0) (= a empty)) :pattern ((slen a))))"),
    ("len_cat", "(forall ((a Str) (b Str)) (! (= (slen (cat a b)) (+ (slen a) (slen b))) :pattern ((cat a b))))"),
    ("cat_empty_l", "(forall ((a Str)) (! (= (cat empty a) a) :pattern ((cat empty a))))"),
    ("cat_empty_r", "(forall ((a Str)) (! (= (cat a empty) a) :pattern ((cat a empty))))"),
    ("cat_cancel_l", "(forall ((a Str) (b Str) (c Str)) (! (=> (= (cat a b) (cat a c)) (= b c)) :pattern ((cat a b) (cat a c))))"),
    ("cat_cancel_r", "(forall ((a Str) (b Str) (c Str)) (! (=> (= (cat a c) (cat b c)) (= a b)) :pattern ((cat a c) (cat b c))))"),
    ("prefix_cat", "(forall ((a Str) (b Str)) (! (prefixof a (cat a b)) :pattern ((cat a b))))"),
    ("suffix_cat", "(forall ((a Str) (b Str)) (! (= (suffix_from (cat a b) (slen a)) b) :pattern ((cat a b))))"),
    ("prefix_split", "(forall ((k Str) (u Str)) (! (=> (prefixof k u) (= (cat k (suffix_from u (slen k))) u)) :pattern ((prefixof k u))))"),
    ("prefix_len", "(forall ((a Str) (b Str)) (! (=> (prefixof a b) (<= (slen a) (slen b))) :pattern ((prefixof a b))))"),
    ("prefix_antisym", "(forall ((a Str) (b Str)) (! (=> (and (prefixof a b) (= (slen a) (slen b))) (= a b)) :pattern ((prefixof a b))))"),
    ("prefix_chain", "(forall ((a Str) (b Str) (u Str)) (! (=> (and (prefixof a u) (prefixof b u) (<= (slen a) (slen b))) (prefixof a b)) :pattern ((prefixof a u) (prefixof b u))))"),
    ("prefix_refl", "(forall ((a Str)) (! (prefixof a a) :pattern ((prefixof a a))))"),
    ("prefix_empty", "(forall ((a Str)) (! (prefixof empty a) :pattern ((prefixof empty a))))"),
    ("prefix_trans", "(forall ((a Str) (b Str) (c Str)) (! (=> (and (prefixof a b) (prefixof b c)) (prefixof a c)) :pattern ((prefixof a b) (prefixof b c))))"),
    ("suffix_from_zero", "(forall ((u Str)) (! (= (suffix_from u 0) u) :pattern ((suffix_from u 0))))"),
    ("suffix_from_len", "(forall ((u Str) (n Int)) (! (=> (and (<= 0 n) (<= n (slen u))) (= (slen (suffix_from u n)) (- (slen u) n))) :pattern ((suffix_from u n))))"),
    ("partition_split", "(forall ((c Str) (d Str)) (! (=> (and (not (= d empty)) (contains c d)) (= (cat (cat (part_before c d) d) (part_after c d)) c)) :pattern ((part_before c d)) :pattern ((part_after c d))))"),
    ("partition_first", "(forall ((c Str) (d Str)) (! (=> (and (not (= d empty)) (contains c d)) (first_occ (part_before c d) d)) :pattern ((part_before c d))))"),
    ("partition_miss", "(forall ((c Str) (d Str)) (! (=> (not (contains c d)) (and (= (part_before c d) c) (= (part_after c d) empty))) :pattern ((part_before c d)) :pattern ((part_after c d))))"),
    ("partition_join", "(forall ((p Str) (d Str) (i Str)) (! (=> (and (not (= d empty)) (first_occ p d)) (and (contains (cat (cat p d) i) d) (= (part_before (cat (cat p d) i) d) p) (= (part_after (cat (cat p d) i) d) i))) :pattern ((cat (cat p d) i))))"),
    ("contains_cat", "(forall ((p Str) (d Str) (i Str)) (! (contains (cat (cat p d) i) d) :pattern ((cat (cat p d) i))))"),
    ("contains_self", "(forall ((d Str)) (! (contains d d) :pattern ((contains d d))))"),
    ("first_occ_len1", "(forall ((p Str) (d Str)) (! (=> (= (slen d) 1) (= (first_occ p d) (not (contains p d)))) :pattern ((first_occ p d))))"),
    ("rsplit_recompose", "(forall ((u Str) (d Str)) (! (=> (and (not (= d empty)) (contains u d)) (= (cat (cat (rpart_before u d) d) (rpart_after u d)) u)) :pattern ((rpart_before u d)) :pattern ((rpart_after u d))))"),
    ("cat_assoc", "(forall ((a Str) (b Str) (c Str)) (! (= (cat (cat a b) c) (cat a (cat b c))) :pattern ((cat (cat a b) c))))"),
    ("le_refl", "(forall ((a Str)) (! (str_le a a) :pattern ((str_le a a))))"),
]


def parse_sexpr(text):
    """Minimal s-expression reader (atoms incl. |quoted| and "strings")."""
    toks = re.findall(r'\(|\)|"(?:[^"]|"")*"|\|[^|]*\||[^\s()]+', text)
    pos = [0]

    def rd():
        t = toks[pos[0]]
        pos[0] += 1
        if t == "(":
            out = []
            while toks[pos[0]] != ")":
                out.append(rd())
            pos[0] += 1
            return out
        return t
    return rd()


def unparse_sexpr(e):
    if isinstance(e, list):
        return "(" + " ".join(unparse_sexpr(x) for x in e) + ")"
    return e


def skolemized_negation(ax):
    """(forall (vars) (! body pats)) -> declarations + (assert (not body)); quantifier-free when body is."""
    e = parse_sexpr(ax)
    decls = []
    while isinstance(e, list) and e and e[0] == "forall":
        for v, srt in e[1]:
            decls.append(f"(declare-const {v} {unparse_sexpr(srt)})")
        e = e[2]
        if isinstance(e, list) and e and e[0] == "!":
            e = e[1]
    return "\n".join(decls) + f"\n(assert (not {unparse_sexpr(e)}))"


def axiom_proof_query(ax):
    return "(set-logic ALL)\n" + STR_SIG_S + "\n" + skolemized_negation(ax) + "\n(check-sat)\n"


ASSUMED_AXIOMS = {"rsplit_recompose"}      # no SMT-LIB counterpart of rsplit: assumed contract of str.rsplit(d, 1)


def str_axioms_text(names=None):
    out = []
    for n, ax in STR_AXIOMS:
        if names is None or n in names:
            out.append(f"(assert (! {ax} :named ax_{n}))")
    return "\n".join(out)


def lit_decl_S(name, value):
    esc = "".join(ch if (32 <= ord(ch) < 127 and ch not in '"\\') else "\\u{%x}" % ord(ch) for ch in value)
    return f'(define-fun {name} () String "{esc}")'


# ------------------------------------------------------------------------------------------
# Solver portfolio
# ------------------------------------------------------------------------------------------
SOLVERS = {
    "z3-new": lambda f, t: ["z3-new", f"-T:{t}", "-smt2", f],
    "z3": lambda f, t: ["/usr/bin/z3", f"-T:{t}", "-smt2", f],
    # relevancy filtering off: E-matching instantiates on every ground term; decisive on the large frame/heap queries
    "z3-new-r0": lambda f, t: ["z3-new", f"-T:{t}", "smt.relevancy=0", "-smt2", f],
    "z3-r0": lambda f, t: ["/usr/bin/z3", f"-T:{t}", "smt.relevancy=0", "-smt2", f],
    "cvc5": lambda f, t: ["/usr/bin/cvc5", "--strings-exp", f"--tlimit={t * 1000}", f],
    "cvc5-new": lambda f, t: ["python3-vt", os.path.join(os.path.dirname(os.path.abspath(__file__)), "cvc5_new.py"), f, str(t * 1000)],
    "cvc5-fmf": lambda f, t: ["/usr/bin/cvc5", "--strings-exp", "--strings-fmf", "--produce-models", f"--tlimit={t * 1000}", f],
}

SCRATCH = os.environ.get("VERIF_SCRATCH") or os.path.join(tempfile.gettempdir(), f"pyvc-{os.getuid()}")


def run_solver(name, text, timeout):
    os.makedirs(SCRATCH, exist_ok=True)
    h = hashlib.sha1(text.encode()).hexdigest()[:16]
    path = os.path.join(SCRATCH, f"q-{h}-{os.getpid()}.smt2")
    with open(path, "w") as f:
        f.write(text)
    t0 = time.time()
    try:
        p = subprocess.run(SOLVERS[name](path, timeout), capture_output=True, text=True, timeout=timeout + 5)
        out = (p.stdout + p.stderr).strip()
    except subprocess.TimeoutExpired:
        out = "timeout"
    finally:
        try:
            os.unlink(path)
        except OSError:
            pass
    dt = time.time() - t0
    verdicts = [ln.strip() for ln in out.split("\n") if ln.strip() in ("sat", "unsat", "unknown")]
    first = verdicts[0] if verdicts else ""
    if first in ("sat", "unsat", "unknown"):
        res = first
    elif "timeout" in out or "interrupted" in out or "resourceout" in out:
        res = "timeout"
    else:
        res = "error"
    return res, out, dt


def solve(text, timeout, order=("z3-new", "z3", "cvc5"), alts=(), stagger=1.5):
    """Race a portfolio; the first decisive answer wins and the others are killed. Back ends start in waves so that
    the machine is not flooded: most obligations are decided by the first wave within a second.
      wave 0 (t=0):        first back end on the full query and on the first reduced variant
      wave 1 (t=stagger):  relevancy-off configuration (full + first variant), remaining reduced variants
      wave 2 (t=4*stagger): the other back ends on the full query, second back end on the first variant
    `alts` are (name, text) variants of the same obligation with FEWER hypotheses: only `unsat` is accepted from them."""
    os.makedirs(SCRATCH, exist_ok=True)
    h = hashlib.sha1(text.encode()).hexdigest()[:16]
    path = os.path.join(SCRATCH, f"q-{h}-{os.getpid()}-{id(text) % 100000}.smt2")
    with open(path, "w") as f:
        f.write(text)
    alt_paths = []
    named = []
    for aname, atext in alts:
        if atext == text:
            continue
        ap = path[:-5] + f"-{aname}.smt2"
        with open(ap, "w") as f:
            f.write(atext)
        alt_paths.append(ap)
        named.append((aname, ap))
    first = order[0]
    plan = [(0.0, first, path)]
    if named:
        plan.append((0.0, first + "/" + named[0][0], named[0][1]))
    if first == "z3-new" and len(order) > 1:
        # relevancy-off is the decisive configuration on large heap/frame queries: start it at once on big queries
        big = len(text) > 60000
        plan.append((0.0 if big else stagger, "z3-new-r0", path))
        if named:
            plan.append((0.0 if big else stagger, "z3-new-r0/" + named[0][0], named[0][1]))
    for aname, ap in named[1:]:
        plan.append((stagger, first + "/" + aname, ap))
        if stagger == 0.0 and first == "z3-new":
            plan.append((0.0, "z3-new-r0/" + aname, ap))
    for n in order[1:]:
        plan.append((4 * stagger, n, path))
    if named and len(order) > 1:
        plan.append((4 * stagger, order[1] + "/" + named[0][0], named[0][1]))
    t0 = time.time()
    procs = {}
    tried = {}

    def start(name, p):
        base = name.split("/")[0]
        try:
            procs[name] = subprocess.Popen(SOLVERS[base](p, timeout), stdout=subprocess.PIPE, stderr=subprocess.STDOUT, text=True)
        except OSError:
            tried[name] = {"solver": name, "result": "error", "s": 0.0, "output": "not startable"}

    waiting = list(plan)
    decisive = None
    deadline = t0 + timeout + 4 * stagger + 5
    while decisive is None and time.time() < deadline:
        now = time.time() - t0
        for item in [w for w in waiting if w[0] <= now]:
            waiting.remove(item)
            start(item[1], item[2])
        pending = [n for n in procs if n not in tried]
        if not pending and not waiting:
            break
        for n in pending:
            p = procs[n]
            if p.poll() is not None:
                out = (p.stdout.read() or "").strip()
                verdicts = [ln.strip() for ln in out.split("\n") if ln.strip() in ("sat", "unsat", "unknown")]
                res = verdicts[0] if verdicts else ("timeout" if ("timeout" in out or "interrupted" in out or "resourceout" in out) else "error")
                if "/" in n and res == "sat":
                    res = "unknown"      # fewer hypotheses: a model means nothing
                tried[n] = {"solver": n, "result": res, "s": round(time.time() - t0, 3), "output": res if res in ("sat", "unsat") else out[:400]}
                if res in ("sat", "unsat"):
                    decisive = (n, res, out)
                    break
        if decisive is None:
            time.sleep(0.005)
    for n, p in procs.items():
        if n not in tried:
            try:
                p.kill()
                p.wait()
            except Exception:
                pass
            tried[n] = {"solver": n, "result": "cancelled" if decisive else "timeout", "s": round(time.time() - t0, 3), "output": ""}
    for pth in [path] + alt_paths:
        try:
            os.unlink(pth)
        except OSError:
            pass
    dt = time.time() - t0
    tl = [tried[n] for _, n, _ in plan if n in tried]
    if decisive:
        return {"result": decisive[1], "solver": decisive[0], "s": dt, "tried": tl, "raw": decisive[2]}
    return {"result": "unknown", "solver": None, "s": dt, "tried": tl, "raw": ""}
