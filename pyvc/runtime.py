"""Native (CPython) evaluation of sidecar contracts and lemmas on the real code.

Used for: replay of counterexamples, bounded stand-ins, the run-time contract monitor.
Never counted as proof.
"""
from __future__ import annotations

import ast
import copy
import importlib
import inspect
import traceback

from . import loader, spec


class Outcome:
    __slots__ = ("status", "detail", "clause")

    def __init__(self, status, detail="", clause=None):
        self.status = status      # 'ok' | 'skip' | 'violation' | 'error'
        self.detail = detail
        self.clause = clause      # which contract clause failed

    def __repr__(self):
        return f"Outcome({self.status}, {self.clause}, {self.detail})"


def resolve(qualname):
    """'api.Converter.parse_uri' -> (callable taking all parameters explicitly, inspect.Signature, kind)."""
    parts = qualname.split(".")
    # module path may itself contain dots (mapping_service.utils.x)
    for cut in range(len(parts) - 1, 0, -1):
        modname = "curies." + ".".join(parts[:cut])
        try:
            mod = importlib.import_module(modname)
        except ImportError:
            continue
        obj = mod
        owner = None
        ok = True
        for p in parts[cut:]:
            owner = obj
            try:
                raw = inspect.getattr_static(obj, p)
            except AttributeError:
                ok = False
                break
            obj = getattr(obj, p)
        if not ok:
            continue
        kind = "function"
        if isinstance(raw, staticmethod):
            kind = "static"
            fn = raw.__func__
        elif isinstance(raw, classmethod):
            kind = "classmethod"
            fn = obj  # bound to class
        elif isinstance(raw, property):
            kind = "property"
            fn = raw.fget
        else:
            fn = raw
        return fn, kind, owner
    raise LookupError(qualname)


def snapshot(obj, _depth=0):
    """A structural, hashable-free snapshot of converters / records for purity and frame checks."""
    from curies.api import Converter, Record
    if isinstance(obj, Converter):
        return (
            "Converter",
            obj.delimiter,
            [snapshot(r) for r in obj.records],
            [id(r) for r in obj.records],
            dict(obj.prefix_map),
            dict(obj.synonym_to_prefix),
            dict(obj.reverse_prefix_map),
            dict(obj.trie.items()),
            dict(obj.pattern_map),
        )
    if isinstance(obj, Record):
        return ("Record", obj.prefix, obj.uri_prefix, list(obj.prefix_synonyms), list(obj.uri_prefix_synonyms), obj.pattern)
    if isinstance(obj, (list, tuple)):
        return [snapshot(x) for x in obj]
    if isinstance(obj, dict):
        return {k: snapshot(v) for k, v in obj.items()}
    return obj


_old_counter = [0]


class _OldCollector(ast.NodeTransformer):
    def __init__(self):
        self.olds = []

    def visit_Call(self, node):
        if isinstance(node.func, ast.Name) and node.func.id == "old" and len(node.args) == 1:
            _old_counter[0] += 1
            name = f"__old_{_old_counter[0]}"
            self.olds.append((name, node.args[0]))
            return ast.copy_location(ast.Name(id=name, ctx=ast.Load()), node)
        self.generic_visit(node)
        return node


_code_cache = {}


def _ev(node, env):
    """env is a full globals dict (helper namespace + bindings)."""
    code = _code_cache.get(id(node))
    if code is None:
        expr = ast.Expression(body=node)
        ast.fix_missing_locations(expr)
        code = compile(expr, "<contract>", "eval")
        _code_cache[id(node)] = (code, node)
    else:
        code = code[0]
    return eval(code, env)


def _src(node):
    try:
        return ast.unparse(node)
    except Exception:
        return "<expr>"


def check_call(qualname, args, fn_override=None):
    """Evaluate the sidecar contract of `qualname` around one concrete call of the real function.

    args: dict parameter name -> value (must cover every contract parameter).
    """
    loader.load()
    node = loader.CONTRACT_AST[qualname]
    fn, kind, owner = resolve(qualname)
    if fn_override is not None:
        fn = fn_override
    env = dict(loader.HELPER_GLOBALS)
    env.update(args)
    requires_ok = True
    raises_clauses = []   # (exc classes, when_value, src)
    ensures_clauses = []  # (ast, src)
    is_pure = False
    may_raise = []
    may_unchanged = []
    try:
        for st in node.body:
            if isinstance(st, ast.Expr) and isinstance(st.value, ast.Constant):
                continue
            if isinstance(st, ast.Assign):
                val = _ev(st.value, env)
                tgt = st.targets[0]
                if isinstance(tgt, ast.Name):
                    env[tgt.id] = val
                else:
                    raise NotImplementedError("tuple let")
                continue
            if isinstance(st, ast.Expr) and isinstance(st.value, ast.Call) and isinstance(st.value.func, ast.Name):
                f = st.value.func.id
                c = st.value
                if f == "requires":
                    if not _ev(c.args[0], env):
                        return Outcome("skip")
                elif f == "pure":
                    is_pure = True
                elif f == "modifies" or f == "hint":
                    pass
                elif f == "may_raise":
                    exc = _ev(c.args[0], env)
                    may_raise.append(exc)
                    if any(kw.arg == "unchanged" and _ev(kw.value, env) for kw in c.keywords):
                        may_unchanged.append(exc)
                elif f == "raises":
                    exc = _ev(c.args[0], env)
                    when = True
                    for kw in c.keywords:
                        if kw.arg == "when":
                            when = _ev(kw.value, env)
                    unchanged = any(kw.arg == "unchanged" and _ev(kw.value, env) for kw in c.keywords)
                    raises_clauses.append((exc, bool(when), _src(c), unchanged))
                elif f == "ensures":
                    if any(kw.arg == "symbolic" for kw in c.keywords):
                        continue          # clause about allocation/frames: meaningful to the prover only
                    col = _OldCollector()
                    ck = ("ens", id(c))
                    if ck in _code_cache:
                        e, olds = _code_cache[ck]
                    else:
                        e = col.visit(copy.deepcopy(c.args[0]))
                        olds = col.olds
                        _code_cache[ck] = (e, olds)
                    col.olds = olds
                    for name, oexpr in col.olds:
                        env[name] = copy.deepcopy(_ev(oexpr, env))
                    ensures_clauses.append((e, _src(c.args[0])))
                else:
                    raise NotImplementedError(f)
                continue
            raise NotImplementedError(ast.dump(st)[:80])
    except spec.Skip:
        return Outcome("skip")
    except Exception as e:  # contract could not be evaluated in the pre-state
        return Outcome("error", "pre-state evaluation failed: " + "".join(traceback.format_exception_only(type(e), e)).strip())

    need_snap = is_pure or any(rc[3] for rc in raises_clauses) or bool(may_unchanged)
    pre_snap = snapshot([v for v in args.values()]) if need_snap else None
    # --- call the real function
    sig = inspect.signature(fn)
    params = list(sig.parameters.values())
    pos, kw = [], {}
    call_args = dict(args)
    if kind == "classmethod":
        call_args.pop("cls", None)
    for p in params:
        if p.name not in call_args:
            if p.kind in (p.VAR_POSITIONAL, p.VAR_KEYWORD):
                continue
            if p.default is p.empty:
                return Outcome("error", f"no value for parameter {p.name}")
            continue
        if p.kind in (p.POSITIONAL_ONLY, p.POSITIONAL_OR_KEYWORD):
            pos.append(call_args[p.name])
        elif p.kind == p.VAR_KEYWORD:
            kw.update(call_args[p.name])
        else:
            kw[p.name] = call_args[p.name]
    # contract parameters beyond the signature are the named contents of **kwargs
    if any(p.kind == p.VAR_KEYWORD for p in params):
        names = {p.name for p in params}
        kw.update({k: v for k, v in call_args.items() if k not in names})
    raised = None
    result = None
    try:
        result = fn(*pos, **kw)
    except Exception as e:  # noqa
        raised = e
    expected = [(exc, src) for exc, when, src, _u in raises_clauses if when]
    must_be_unchanged = any(u for exc, when, src, u in raises_clauses if when)
    if raised is not None:
        if any(isinstance(raised, exc) for exc in may_raise):
            if any(isinstance(raised, exc) for exc in may_unchanged) and snapshot([v for v in args.values()]) != pre_snap:
                return Outcome("violation", "rejected call changed its arguments (may_raise(..., unchanged=True))", "unchanged-on-raise")
            if is_pure and snapshot([v for v in args.values()]) != pre_snap:
                return Outcome("violation", "arguments modified by a function declared pure()", "pure")
            return Outcome("ok")
        if not any(isinstance(raised, exc) for exc, _ in expected):
            return Outcome(
                "violation",
                f"raised {type(raised).__name__}: {raised!s:.200} but no raises-clause admits it here",
                "exceptional-exit",
            )
        if (is_pure or must_be_unchanged) and snapshot([v for v in args.values()]) != pre_snap:
            return Outcome("violation", "rejected call changed its arguments (raises(..., unchanged=True) / pure())", "unchanged-on-raise")
        return Outcome("ok")
    if expected:
        return Outcome("violation", f"returned {result!r:.200} but contract requires {expected[0][1]}", expected[0][1])
    env["result"] = result
    for e, src in ensures_clauses:
        try:
            ok = _ev(e, env)
        except Exception as ex:
            return Outcome("violation", f"postcondition not evaluable on result {result!r:.200}: {type(ex).__name__}: {ex}", src)
        if not ok:
            return Outcome("violation", f"postcondition false; result={result!r:.300}", src)
    if is_pure and snapshot([v for v in args.values()]) != pre_snap:
        return Outcome("violation", "arguments modified by a function declared pure()", "pure")
    return Outcome("ok")


def run_lemma(name, args):
    """Run a lemma (ghost function over the real API) natively."""
    loader.load()
    li = spec.LEMMAS[name]
    try:
        li.fn(**args)
    except spec.Skip:
        return Outcome("skip")
    except AssertionError as e:
        tb = traceback.extract_tb(e.__traceback__)
        line = tb[-1].line if tb else ""
        return Outcome("violation", f"assert failed: {line}", line)
    except Exception as e:
        tb = traceback.extract_tb(e.__traceback__)
        where = f"{tb[-1].name}:{tb[-1].lineno} {tb[-1].line}" if tb else ""
        return Outcome("violation", f"unexpected {type(e).__name__}: {e!s:.200} at {where}", "exception")
    return Outcome("ok")
