"""Per-function input domains for the bounded stand-ins (functions whose inputs are not 'a converter
plus strings and flags')."""
from __future__ import annotations

import itertools
import random

from . import worlds

DOMAINS: dict = {}


def domain(name):
    def deco(fn):
        DOMAINS[name] = fn
        return fn
    return deco


@domain("api._split")
def _split_cases(seed, tier):
    strs = ["", "a", ":", "a:b", "a:b:c", ":a", "a:", "::", "a::b", "a:::b", "é:ü", "ab"]
    for c in strs:
        for sep in [":", "::", "/", "a"]:
            yield {"curie": c, "sep": sep}
