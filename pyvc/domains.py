"""Per-function input domains for the bounded stand-ins (functions whose inputs are not 'a converter
plus strings and flags')."""
from __future__ import annotations

import itertools
import random

from . import worlds

DOMAINS: dict = {}


def domain(name):
    def deco(fn):
        DOMAINS[name] = fn
        return fn
    return deco


@domain("api._split")
def _split_cases(seed, tier):
    strs = ["", "a", ":", "a:b", "a:b:c", ":a", "a:", "::", "a::b", "a:::b", "é:ü", "ab"]
    for c in strs:
        for sep in [":", "::", "/", "a"]:
            yield {"curie": c, "sep": sep}


@domain("C01.order_independent")
def _c01_order(seed, tier):
    """c2 = the same records supplied in another order / added incrementally (deep copies)."""
    from curies.api import Converter
    rng = random.Random(seed)
    n = 40 if tier == "quick" else 300
    for c1 in worlds.converters(n, seed):
        recs = [r.model_copy(deep=True) for r in c1.records]
        rng.shuffle(recs)
        variants = [Converter(recs, delimiter=c1.delimiter)]
        inc = Converter([], delimiter=c1.delimiter)
        for r in [r.model_copy(deep=True) for r in reversed(c1.records)]:
            inc.add_record(r)
        variants.append(inc)
        for c2 in variants:
            for u in worlds.uri_pool(c1):
                yield {"c1": c1, "c2": c2, "u": u}
