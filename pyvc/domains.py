"""Per-function input domains for the bounded stand-ins (functions whose inputs are not 'a converter
plus strings and flags')."""
from __future__ import annotations

import itertools
import random

from . import worlds

DOMAINS: dict = {}


def domain(name):
    def deco(fn):
        DOMAINS[name] = fn
        return fn
    return deco


@domain("api._split")
def _split_cases(seed, tier):
    strs = ["", "a", ":", "a:b", "a:b:c", ":a", "a:", "::", "a::b", "a:::b", "é:ü", "ab"]
    for c in strs:
        for sep in [":", "::", "/", "a"]:
            yield {"curie": c, "sep": sep}


@domain("C01.order_independent")
def _c01_order(seed, tier):
    """c2 = the same records supplied in another order / added incrementally (deep copies)."""
    from curies.api import Converter
    rng = random.Random(seed)
    n = 40 if tier == "quick" else 300
    for c1 in worlds.converters(n, seed):
        recs = [r.model_copy(deep=True) for r in c1.records]
        rng.shuffle(recs)
        variants = [Converter(recs, delimiter=c1.delimiter)]
        inc = Converter([], delimiter=c1.delimiter)
        for r in [r.model_copy(deep=True) for r in reversed(c1.records)]:
            inc.add_record(r)
        variants.append(inc)
        for c2 in variants:
            for u in worlds.uri_pool(c1):
                yield {"c1": c1, "c2": c2, "u": u}


# ---------------------------------------------------------------------------------------------
# record collections (possibly clashing) for C04
# ---------------------------------------------------------------------------------------------
def _rec(spec_):
    from curies.api import Record
    p, u, ps, us = spec_[:4]
    pat = spec_[4] if len(spec_) > 4 else None
    return Record(prefix=p, uri_prefix=u, prefix_synonyms=list(ps), uri_prefix_synonyms=list(us), pattern=pat)


def record_spec_lists(seed, n):
    """Lists of 0-3 record specs over a tiny pool: many clash (canonical/synonym, either side, both)."""
    rng = random.Random(seed)
    P = ["a", "b", "A", ""]
    Uu = ["u/", "v/", "u/a", ""]
    curated = [
        [],
        [("a", "u/", [], [])],
        [("a", "u/", [], []), ("a", "v/", [], [])],
        [("a", "u/", [], []), ("b", "u/", [], [])],
        [("a", "u/", ["b"], []), ("b", "v/", [], [])],
        [("a", "u/", ["c"], []), ("b", "v/", ["c"], [])],
        [("a", "u/", [], ["w/"]), ("b", "v/", [], ["w/"])],
        [("a", "u/", [], ["v/"]), ("b", "v/", [], [])],
        [("a", "u/", ["b"], ["v/"]), ("b", "v/", [], [])],
        [("a", "u/", ["A", "A"], ["w/", "w/"])],
        [("b", "u/", [], []), ("a", "v/", [], []), ("c", "w/", ["a"], [])],
        [("a", "u/", [], []), ("b", "v/", [], []), ("c", "w/", [], ["u/"])],
    ]
    for c in curated:
        yield c
    for _ in range(n):
        k = rng.choice([1, 2, 2, 3])
        out = []
        for _ in range(k):
            p, u = rng.choice(P), rng.choice(Uu)
            ps = [x for x in rng.sample(P, rng.choice([0, 0, 1])) if x != p]
            us = [x for x in rng.sample(Uu, rng.choice([0, 0, 1])) if x != u]
            out.append((p, u, ps, us))
        yield out


def _records_domain(seed, tier):
    for specs in record_spec_lists(seed, 150 if tier == "quick" else 1500):
        yield {"records": [_rec(s) for s in specs]}


for _q in ("api._get_duplicate_uri_prefixes", "api._get_duplicate_prefixes", "api._get_prefix_map", "api._get_prefix_synmap",
           "api._get_reverse_prefix_map", "api._get_pattern_map"):
    DOMAINS[_q] = _records_domain


@domain("api.Converter.__init__")
def _init_cases(seed, tier):
    from curies.api import Converter
    for specs in record_spec_lists(seed, 150 if tier == "quick" else 1500):
        for strict in (True, False):
            for d in (":", "/"):
                yield {"self": Converter.__new__(Converter), "records": [_rec(s) for s in specs], "delimiter": d, "strict": strict}


class _Info(dict):
    """Stand-in for pydantic's ValidationInfo: `.data` is the mapping itself."""
    @property
    def data(self):
        return self


def _validator_cases(key):
    def gen(seed, tier):
        pool = ["a", "b", "", "A"]
        for p in pool:
            for n in range(4):
                for vs in itertools.product(pool, repeat=n):
                    yield {"v": list(vs), "values": _Info({key: p, "other": "x"})}
    return gen


DOMAINS["api.Record.prefix_not_in_synonyms"] = _validator_cases("prefix")
DOMAINS["api.Record.uri_prefix_not_in_synonyms"] = _validator_cases("uri_prefix")


@domain("C04.record_validators")
def _validators(seed, tier):
    pool = ["a", "b", ""]
    lists = [[], ["a"], ["b"], ["a", "b"], [""], ["a", "a"]]
    for p in pool:
        for u in pool:
            for ps in lists:
                for us in lists:
                    yield {"p": p, "u": u, "ps": list(ps), "us": list(us)}


@domain("C04.strict_iff")
def _strict_iff(seed, tier):
    for specs in record_spec_lists(seed, 200 if tier == "quick" else 2000):
        if any(s[0] in s[2] or s[1] in s[3] for s in specs):
            continue
        for d in (":", "/"):
            yield {"specs": specs, "delimiter": d}


@domain("api._eq")
def _eq_cases(seed, tier):
    pool = ["a", "A", "ab", "", "ß", "ss", "SS", "é", "É"]
    for a in pool:
        for b in pool:
            for cs in (True, False):
                yield {"a": a, "b": b, "case_sensitive": cs}


@domain("api._in")
def _in_cases(seed, tier):
    pool = ["a", "A", "", "ß", "SS"]
    for a in pool:
        for bs in ([], ["a"], ["A", "b"], ["ss"], ["", "x"]):
            for cs in (True, False):
                yield {"a": a, "bs": list(bs), "case_sensitive": cs}


def _overlapping_specs(c, rng, n):
    """Record specs that are fresh / overlap c on the CURIE side, the URI side, both, or only up to case."""
    names = [p for r in c.records for p in [r.prefix] + list(r.prefix_synonyms)] or ["a"]
    unames = [u for r in c.records for u in [r.uri_prefix] + list(r.uri_prefix_synonyms)] or ["u/"]
    def vary(x):
        return rng.choice([x, x.upper(), x.lower(), x + "x", "new" + x])
    for _ in range(n):
        p = vary(rng.choice(names + ["zz"]))
        u = vary(rng.choice(unames + ["z/"]))
        ps = [vary(rng.choice(names + ["yy"])) for _ in range(rng.choice([0, 0, 1, 2]))]
        us = [vary(rng.choice(unames + ["y/"])) for _ in range(rng.choice([0, 0, 1, 2]))]
        ps = sorted({x for x in ps if x != p})
        us = sorted({x for x in us if x != u})
        yield (p, u, ps, us, rng.choice([None, None, "^x$"]))


@domain("api.Converter._match_record")
def _match_cases(seed, tier):
    rng = random.Random(seed)
    for c in worlds.converters(20 if tier == "quick" else 100, seed):
        for s in _overlapping_specs(c, rng, 12):
            for cs in (True, False):
                yield {"self": c, "external": _rec(s), "case_sensitive": cs}


@domain("api.Converter._merge")
def _merge_cases(seed, tier):
    rng = random.Random(seed)
    for c in worlds.converters(20 if tier == "quick" else 100, seed):
        for into in c.records:
            for s in _overlapping_specs(c, rng, 6):
                yield {"record": _rec(s), "into": into.model_copy(deep=True)}


@domain("api.Converter._index")
def _index_cases(seed, tier):
    rng = random.Random(seed)
    for c in worlds.converters(20 if tier == "quick" else 100, seed):
        for s in _overlapping_specs(c, rng, 6):
            c2 = worlds.make_converter(worlds.describe_converter(c)["records"], c.delimiter)
            r = _rec(s)
            c2.records.append(r)
            yield {"self": c2, "record": r}
        for i in range(len(c.records)):
            c2 = worlds.make_converter(worlds.describe_converter(c)["records"], c.delimiter)
            yield {"self": c2, "record": c2.records[i]}


@domain("api.Converter.add_record")
def _add_record_cases(seed, tier):
    rng = random.Random(seed)
    for c in worlds.converters(25 if tier == "quick" else 150, seed):
        spec0 = worlds.describe_converter(c)
        for s in _overlapping_specs(c, rng, 10):
            for cs in (True, False):
                for merge in (True, False):
                    c2 = worlds.make_converter(spec0["records"], spec0["delimiter"])
                    yield {"self": c2, "record": _rec(s), "case_sensitive": cs, "merge": merge}


@domain("C05.add_record_then_expand")
def _add_then_expand(seed, tier):
    rng = random.Random(seed + 2)
    fresh_specs = [("zz", "http://zz/", [], [], None), ("new", "http://n/", ["nw"], ["http://n2/"], None), ("", "http://e/", [], [], None)]
    for c in worlds.converters(25 if tier == "quick" else 150, seed):
        spec0 = worlds.describe_converter(c)
        names = worlds.prefix_pool(c)
        for s in list(_overlapping_specs(c, rng, 3)) + fresh_specs:
            for p in rng.sample(names, min(2, len(names))) + [s[0]] + list(s[2][:1]):
                c2 = worlds.make_converter(spec0["records"], spec0["delimiter"])
                try:
                    rec = _rec(s)
                except Exception:
                    continue
                yield {"conv": c2, "record": rec, "p": p, "x": rng.choice(["1", ""])}


@domain("api.Converter.add_prefix")
def _add_prefix_cases(seed, tier):
    rng = random.Random(seed)
    for c in worlds.converters(25 if tier == "quick" else 150, seed):
        spec0 = worlds.describe_converter(c)
        extra = [("a", "u/", ["a"], []), ("n", "n/", [], ["n/"])]
        for s in list(_overlapping_specs(c, rng, 8)) + extra:
            for cs in (True, False):
                for merge in (True, False):
                    c2 = worlds.make_converter(spec0["records"], spec0["delimiter"])
                    yield {"self": c2, "prefix": s[0], "uri_prefix": s[1], "prefix_synonyms": list(s[2]) or None,
                           "uri_prefix_synonyms": list(s[3]) or None, "case_sensitive": cs, "merge": merge}


PROBE_KINDS = ["compress", "parse_uri", "expand", "expand_all", "std_prefix", "std_uri", "expand_pair", "expand_pair_all", "get_record", "is_curie"]


@domain("C05.history_equals_fresh")
def _history_cases(seed, tier):
    rng = random.Random(seed)
    for c in worlds.converters(25 if tier == "quick" else 120, seed):
        spec0 = worlds.describe_converter(c)
        for _ in range(4 if tier == "quick" else 10):
            c2 = worlds.make_converter(spec0["records"], spec0["delimiter"])
            specs = list(_overlapping_specs(c, rng, 3))
            ops = [(rng.choice(["add_record", "add_prefix"]), s, rng.choice([True, False]), rng.choice([True, True, False])) for s in specs]
            d = c.delimiter
            probes = []
            for s in specs:
                for u in [s[1]] + list(s[3]):
                    probes += [("compress", u + "1"), ("parse_uri", u + "x"), ("std_uri", u + "1")]
                for p in [s[0]] + list(s[2]):
                    probes += [("expand", p + d + "1"), ("expand_all", p + d + "1"), ("std_prefix", p), ("expand_pair", p),
                               ("expand_pair_all", p), ("get_record", p), ("is_curie", p + d + "1")]
            for u in worlds.uri_pool(c)[:8]:
                probes.append(("compress", u))
            yield {"conv": c2, "ops": ops, "probes": probes}


@domain("api.chain")
def _chain_cases(seed, tier):
    rng = random.Random(seed)
    specs = worlds.converter_specs(20 if tier == "quick" else 120, seed)
    specs = [(s, d) for s, d in specs if d == ":"]
    def mk(i):
        s, d = specs[i]
        try:
            return worlds.make_converter(s, d)
        except Exception:
            return None
    yield {"converters": [], "case_sensitive": True}
    for s0, d0 in worlds.CURATED:
        if d0 == ":":
            for flag in (True, False):
                try:
                    yield {"converters": [worlds.make_converter(s0, d0)], "case_sensitive": flag}
                    yield {"converters": [worlds.make_converter(s0, d0), worlds.make_converter([("zz", "zz/", ["ZZ"], [], None)], ":")], "case_sensitive": flag}
                except Exception:
                    pass
    n = 120 if tier == "quick" else 1200
    for _ in range(n):
        k = rng.choice([1, 2, 2, 3])
        cs = [mk(rng.randrange(len(specs))) for _ in range(k)]
        if any(c is None for c in cs):
            continue
        # variants that overlap only up to case / on synonyms
        if rng.random() < 0.5 and cs[0].records:
            r = cs[0].records[0]
            try:
                cs.append(worlds.make_converter([(r.prefix.upper() if r.prefix.upper() != r.prefix else r.prefix + "2", r.uri_prefix + "x/",
                                                  [r.prefix + "_syn"], [r.uri_prefix.upper() + "y/"], None)], ":"))
            except Exception:
                pass
        for flag in (True, False):
            yield {"converters": [worlds.make_converter(worlds.describe_converter(c)["records"], c.delimiter) for c in cs], "case_sensitive": flag}


@domain("api.Converter.get_subconverter")
def _subconv_cases(seed, tier):
    rng = random.Random(seed)
    for c in worlds.converters(30 if tier == "quick" else 200, seed):
        names = worlds.prefix_pool(c)
        for _ in range(6):
            k = rng.choice([0, 1, 2, 3])
            yield {"self": c, "prefixes": rng.sample(names, min(k, len(names)))}


@domain("C09.subconverter_answers_as_parent")
def _sub_answers(seed, tier):
    rng = random.Random(seed + 1)
    for case in _subconv_cases(seed, tier):
        names = worlds.prefix_pool(case["self"])
        for p in rng.sample(names, min(3, len(names))) + ["zz"]:
            yield {"conv": case["self"], "prefixes": case["prefixes"], "p": p, "x": rng.choice(["1", "", "a"])}


@domain("C09.chain_single_is_identity")
def _chain_single(seed, tier):
    for c in worlds.converters(40 if tier == "quick" else 300, seed):
        yield {"conv": c, "s": "", "p": ""}


@domain("C10.derived_mutation_does_not_leak")
def _leak_cases(seed, tier):
    rng = random.Random(seed)
    for c in worlds.converters(30 if tier == "quick" else 200, seed):
        names = worlds.prefix_pool(c)
        for s in _overlapping_specs(c, rng, 4):
            yield {"conv": c, "prefixes": rng.sample(names, min(2, len(names))), "extra": s}


@domain("C04.bimaps_inverse")
def _bimaps(seed, tier):
    for c in worlds.converters(40 if tier == "quick" else 300, seed):
        for p in worlds.prefix_pool(c):
            for u in worlds.uri_pool(c)[:6]:
                yield {"conv": c, "p": p, "u": u}


# ---------------------------------------------------------------------------------------------
# reconciliation
# ---------------------------------------------------------------------------------------------
def _remappings(names, rng, n, unknown):
    """Dicts over known names and unknown strings incl. chains, swaps, maps onto existing names."""
    names = list(names)
    pool = names + list(unknown)
    out = [{}]
    if names:
        a = names[0]
        out += [{a: "new"}, {a: a}, {"zz": a}, {a: "x", "q": a}]
    if len(names) >= 2:
        a, b = names[0], names[1]
        out += [{a: b}, {a: b, b: a}, {a: b, b: "c9"}, {a: "n1", b: "n1"}, {a: "n1", b: "n2"}, {b: "x", "q": b}]
    for _ in range(n):
        k = rng.choice([1, 1, 2, 3])
        keys = rng.sample(pool, min(k, len(pool)))
        out.append({key: rng.choice(pool + ["n1", "n2"]) for key in keys})
    return out


@domain("reconciliation._order_curie_remapping")
def _order_cases(seed, tier):
    rng = random.Random(seed)
    for c in worlds.converters(25 if tier == "quick" else 150, seed):
        names = [p for r in c.records for p in [r.prefix] + list(r.prefix_synonyms)]
        for m in _remappings(names, rng, 8, ["zz", "q"]):
            yield {"converter": c, "curie_remapping": m}


def _exhaustive_curie_worlds():
    """Every converter of 1-3 records over tiny pools (canonical prefixes a,b,c; at most one synonym each) and every
    remapping with at most 3 pairs over the known names plus two unknown strings: all chains, swaps, maps onto
    synonyms, partially applicable chains. Thorough tier only (exhaustive => `exhaustive` in the evidence)."""
    names = ["a", "b", "c"]
    syns = {"a": "a1", "b": "b1", "c": "c1"}
    for n in (1, 2, 3):
        for with_syn in itertools.product([False, True], repeat=n):
            specs = [(names[i], f"u{i}/", [syns[names[i]]] if with_syn[i] else [], [], None) for i in range(n)]
            try:
                c = worlds.make_converter(specs, ":")
            except Exception:
                continue
            known = [p for s in specs for p in [s[0]] + s[2]]
            pool = known + ["x", "q"]
            for k in (1, 2, 3):
                if n == 3 and k == 3:
                    continue
                for keys in itertools.combinations(pool, k):
                    for vals in itertools.product(pool, repeat=k):
                        yield c, dict(zip(keys, vals))


@domain("reconciliation.remap_curie_prefixes")
def _remap_curie_cases(seed, tier):
    if tier == "thorough":
        for c, m in _exhaustive_curie_worlds():
            yield {"converter": worlds.make_converter(worlds.describe_converter(c)["records"], ":"), "remapping": m}
    rng = random.Random(seed)
    for c in worlds.converters(25 if tier == "quick" else 150, seed):
        names = [p for r in c.records for p in [r.prefix] + list(r.prefix_synonyms)]
        for m in _remappings(names, rng, 8, ["zz", "q"]):
            yield {"converter": c, "remapping": m}


@domain("reconciliation.remap_uri_prefixes")
def _remap_uri_cases(seed, tier):
    rng = random.Random(seed)
    for c in worlds.converters(25 if tier == "quick" else 150, seed):
        names = [u for r in c.records for u in [r.uri_prefix] + list(r.uri_prefix_synonyms)]
        for m in _remappings(names, rng, 8, ["z/", "q/"]):
            yield {"converter": c, "remapping": m}


@domain("reconciliation.rewire")
def _rewire_cases(seed, tier):
    rng = random.Random(seed)
    for c in worlds.converters(25 if tier == "quick" else 150, seed):
        names = [p for r in c.records for p in [r.prefix] + list(r.prefix_synonyms)]
        unames = [u for r in c.records for u in [r.uri_prefix] + list(r.uri_prefix_synonyms)]
        for _ in range(10):
            keys = rng.sample(names + ["zz"], min(rng.choice([1, 1, 2]), len(names) + 1))
            yield {"converter": c, "rewiring": {k: rng.choice(unames + ["n1/", "n2/"]) for k in keys}}


def _record_upgrade_cases(side):
    def gen(seed, tier):
        rng = random.Random(seed)
        for c in worlds.converters(15 if tier == "quick" else 60, seed):
            for r in c.records:
                names = ([r.prefix] + list(r.prefix_synonyms)) if side == "curie" else ([r.uri_prefix] + list(r.uri_prefix_synonyms))
                for _ in range(5):
                    keys = rng.sample(names + ["zz"], min(rng.choice([0, 1, 2]), len(names) + 1))
                    yield {"record": r, "upgrades": {k: "new-" + k for k in keys}}
    return gen


DOMAINS["reconciliation._get_uri_preferred_or_synonym"] = _record_upgrade_cases("uri")
DOMAINS["reconciliation._get_curie_preferred_or_synonym"] = _record_upgrade_cases("curie")


def _rewire_lemma(seed, tier):
    for case in _rewire_cases(seed, tier):
        yield {"conv": case["converter"], "rewiring": case["rewiring"]}


def _c12_keep(kind):
    def gen(seed, tier):
        src = _remap_uri_cases if kind == "remap" else _rewire_cases
        for case in src(seed, tier):
            c = case["converter"]
            us = [x + "1" for r in c.records for x in [r.uri_prefix, *r.uri_prefix_synonyms]][:3] + ["zzz"]
            ps = worlds.prefix_pool(c)[:3] + ["zz"]
            key = "remapping" if kind == "remap" else "rewiring"
            for u in us:
                if kind == "remap":
                    yield {"conv": c, "remapping": case[key], "u": u}
                else:
                    yield {"conv": c, "rewiring": case[key], "u": u, "p": ps[0]}
            if kind == "remap":
                for p in ps:
                    yield {"conv": c, "remapping": case[key], "p": p}
    return gen


DOMAINS["C12.remap_uri_keeps_every_uri"] = lambda seed, tier: (c for c in _c12_keep("remap")(seed, tier) if "u" in c)
DOMAINS["C12.remap_uri_keeps_curie_prefixes"] = lambda seed, tier: (c for c in _c12_keep("remap")(seed, tier) if "p" in c)
DOMAINS["C12.rewire_keeps_every_uri_and_name"] = _c12_keep("rewire")
DOMAINS["C12.rewire_idempotent"] = _rewire_lemma
DOMAINS["C12.rewire_unknown_adds_nothing"] = _rewire_lemma


@domain("C10.reconciliation_does_not_leak")
def _recon_leak(seed, tier):
    rng = random.Random(seed)
    for c in worlds.converters(25 if tier == "quick" else 150, seed):
        names = [p for r in c.records for p in [r.prefix] + list(r.prefix_synonyms)]
        unames = [u for r in c.records for u in [r.uri_prefix] + list(r.uri_prefix_synonyms)]
        for m in _remappings(names, rng, 3, ["zz"])[:8]:
            um = {k: "n-" + k for k in rng.sample(unames + ["z/"], min(2, len(unames) + 1))}
            for s in _overlapping_specs(c, rng, 2):
                yield {"conv": c, "cmap": m, "umap": um, "extra": s}


# ---------------------------------------------------------------------------------------------
# w3c / discovery
# ---------------------------------------------------------------------------------------------
W3C_ALPHABET = ["a", "1", "_", ".", "-", ":", "/", "#", " ", "\t", "\n", "[", "]", "é", "Z"]


def _w3c_strings(seed, tier):
    n = 3 if tier == "quick" else 4
    for k in range(0, n + 1):
        for tup in itertools.product(W3C_ALPHABET, repeat=k):
            yield "".join(tup)
    rng = random.Random(seed)
    for _ in range(300 if tier == "quick" else 3000):
        yield "".join(rng.choice(W3C_ALPHABET + ["a", "b", "GO", "0"]) for _ in range(rng.randint(5, 12)))


DOMAINS["w3c.is_w3c_prefix"] = lambda seed, tier: ({"prefix": s} for s in _w3c_strings(seed, tier))
DOMAINS["w3c._is_w3c_luid"] = lambda seed, tier: ({"luid": s} for s in _w3c_strings(seed, tier))
DOMAINS["w3c.is_w3c_curie"] = lambda seed, tier: ({"curie": s} for s in _w3c_strings(seed, tier))


def _uri_lists(rng, n):
    bases = ["http://x/", "http://x/a_", "http://x#", "http://y/b/", "x", "http://x/a_b/", "https://github.com/a/b/issues/", "http://z::", "aXb"]
    tails = ["1", "12", "ab", "a_b", "", "a-b", "9", "é", "a/b", "x#y"]
    for _ in range(n):
        k = rng.choice([0, 1, 2, 3, 4, 6])
        yield [rng.choice(bases) + rng.choice(tails) for _ in range(k)]


def _disc_convs(seed):
    out = [None]
    for c in worlds.converters(0, seed):
        out.append(c)
    try:
        out.append(worlds.make_converter([("k", "http://x/", [], ["http://y/b/"], None)], ":"))
    except Exception:
        pass
    return out


@domain("discovery.discover")
def _discover_cases(seed, tier):
    rng = random.Random(seed)
    convs = _disc_convs(seed)
    for uris in _uri_lists(rng, 150 if tier == "quick" else 1500):
        yield {"uris": uris, "delimiters": rng.choice([None, None, ["/"], ["_", "/"], ["::", "/"], ["X", "#"]]),
               "cutoff": rng.choice([None, None, 1, 2, 3]), "metaprefix": rng.choice(["ns", "", "p_"]), "converter": rng.choice(convs)}


@domain("discovery._get_uri_prefix_to_luids")
def _luids_cases(seed, tier):
    for case in _discover_cases(seed, tier):
        yield {"converter": case["converter"], "uris": case["uris"], "delimiters": case["delimiters"]}


@domain("C19.function_of_the_set")
def _c19_set(seed, tier):
    rng = random.Random(seed)
    convs = _disc_convs(seed)
    for uris in _uri_lists(rng, 150 if tier == "quick" else 1500):
        perm = list(uris) + [rng.choice(uris) for _ in range(rng.choice([0, 1, 2]))] if uris else []
        rng.shuffle(perm)
        yield {"uris": uris, "perm": perm, "delimiters": rng.choice([[], [], ["/"], ["_", "/"]]), "cutoff": rng.choice([None, 1, 2]), "conv": rng.choice(convs)}


# ---------------------------------------------------------------------------------------------
# loaders / writers / references / bulk
# ---------------------------------------------------------------------------------------------
def _prefix_maps(rng, n, bijective=False):
    P = ["a", "b", "A", "ab", "é", "c", ""]
    Uu = ["u/", "v/", "u/a_", "ü#", "w:", ""]
    out = [{}, {"a": "u/"}, {"b": "u/", "a": "u/"}, {"b": "u/", "a": "u/", "c": "v/"}, {"a": "u/", "b": "u/a_"},
           {"": "u/", "a": "v/"}, {"a": "", "b": "v/"}]
    for _ in range(n):
        keys = rng.sample(P, rng.choice([1, 2, 3, 4]))
        out.append({k: rng.choice(Uu) for k in keys})
    if bijective:
        out = [m for m in out if len(set(m.values())) == len(m)]
    return out


@domain("api.upgrade_prefix_map")
def _upm(seed, tier):
    rng = random.Random(seed)
    for pm in _prefix_maps(rng, 100 if tier == "quick" else 1000):
        yield {"prefix_map": pm}


@domain("C13.upgrade_accepted_by_strict_converter")
def _upm_acc(seed, tier):
    rng = random.Random(seed)
    for pm in _prefix_maps(rng, 100 if tier == "quick" else 1000):
        for p in list(pm) + ["zz"]:
            yield {"pm": pm, "p": p}


@domain("C13.upgrade_always_valid_any_order")
def _upm_order(seed, tier):
    rng = random.Random(seed)
    for pm in _prefix_maps(rng, 60 if tier == "quick" else 600):
        ks = list(pm)
        perms = list(itertools.permutations(ks)) if len(ks) <= 3 else [rng.sample(ks, len(ks)) for _ in range(6)]
        for order in perms:
            yield {"pm": pm, "order": list(order)}


@domain("C13.prefix_map_denotes")
def _pm_denotes(seed, tier):
    rng = random.Random(seed)
    for pm in _prefix_maps(rng, 100 if tier == "quick" else 1000):
        yield {"pm": pm}


@domain("api.Converter.from_prefix_map")
def _fpm(seed, tier):
    rng = random.Random(seed)
    for pm in _prefix_maps(rng, 100 if tier == "quick" else 1000):
        for strict in (True, False):
            yield {"prefix_map": pm, "delimiter": rng.choice([":", ":", "/", "::"]), "strict": strict}


@domain("api.Converter.from_extended_prefix_map")
def _fepm(seed, tier):
    for case in _init_cases(seed, tier):
        yield {"records": case["records"], "delimiter": case.get("delimiter", ":"), "strict": case.get("strict", True)}


@domain("api.Converter.from_reverse_prefix_map")
def _frpm(seed, tier):
    rng = random.Random(seed)
    Uu = ["u/", "v/", "u/a_", "ü#", "w:", "x/", "uu/"]
    yield {"reverse_prefix_map": {}, "delimiter": ":", "strict": True}
    for _ in range(100 if tier == "quick" else 1000):
        us = rng.sample(Uu, rng.choice([1, 2, 3, 4]))
        for strict in (True, False):
            yield {"reverse_prefix_map": {u: rng.choice(["a", "b", "é"]) for u in us}, "delimiter": rng.choice([":", ":", "/"]), "strict": strict}


@domain("api.Converter.from_jsonld")
def _fjl(seed, tier):
    rng = random.Random(seed)
    for pm in _prefix_maps(rng, 100 if tier == "quick" else 1000):
        ctx = dict(pm)
        for extra in rng.sample([("", "e/"), ("@vocab", "v/"), ("@base", "u/"), ("@x", "w:")], rng.choice([0, 1, 2])):
            ctx[extra[0]] = extra[1]
        ctx = {k: ctx[k] for k in rng.sample(list(ctx), len(ctx))}
        for strict in (True, False):
            yield {"data": {"@context": ctx}, "delimiter": rng.choice([":", ":", "/"]), "strict": strict}


@domain("api.Converter.from_priority_prefix_map")
def _fppm(seed, tier):
    rng = random.Random(seed)
    Uu = ["u/", "v/", "u/a_", "ü#", "w:", "x/"]
    for _ in range(100 if tier == "quick" else 1000):
        keys = rng.sample(["a", "b", "é"], rng.choice([0, 1, 2, 3]))
        data = {k: [rng.choice(Uu) for _ in range(rng.choice([1, 1, 2, 3]))] for k in keys}
        for strict in (True, False):
            yield {"data": data, "delimiter": rng.choice([":", ":", "/"]), "strict": strict}


DOMAINS["C13.loader_keyword_defaults"] = _pm_denotes


@domain("C13.priority_pairs_expand_and_compress")
def _prio_pairs(seed, tier):
    for case in _prio(seed, tier):
        pm = case["pm"]
        for p in pm:
            for i in range(len(pm[p])):
                yield {"data": pm, "p": p, "i": i, "x": "1"}


@domain("C13.reverse_pairs_expand_and_compress")
def _rev_pairs(seed, tier):
    for case in _rev(seed, tier):
        for u in case["rpm"]:
            yield {"rpm": case["rpm"], "u": u, "x": "1"}


@domain("C13.upgrade_pairs_expand_and_compress")
def _upm_pairs(seed, tier):
    rng = random.Random(seed)
    for pm in _prefix_maps(rng, 60 if tier == "quick" else 600):
        for p in pm:
            yield {"pm": pm, "p": p, "x": "1"}


@domain("C13.jsonld_pairs_expand_and_compress")
def _jl_pairs(seed, tier):
    for case in _fjl(seed, tier):
        ctx = case["data"]["@context"]
        for p in list(ctx) + ["zz"]:
            yield {"data": case["data"], "p": p, "x": "1"}


@domain("C13.listed_pairs_expand_and_compress")
def _pairs(seed, tier):
    rng = random.Random(seed)
    for pm in _prefix_maps(rng, 60 if tier == "quick" else 600, bijective=True):
        for p in pm:
            for x in ("1", "", "a:b"):
                yield {"pm": pm, "p": p, "x": x}


@domain("C13.priority_map_denotes")
def _prio(seed, tier):
    rng = random.Random(seed)
    Uu = ["u/", "v/", "u/a_", "ü#", "w:", "x/"]
    for _ in range(100 if tier == "quick" else 1000):
        keys = rng.sample(["a", "b", "é"], rng.choice([1, 2, 3]))
        yield {"pm": {k: rng.sample(Uu, rng.choice([1, 2, 3])) for k in keys}}


@domain("C13.reverse_map_denotes")
def _rev(seed, tier):
    rng = random.Random(seed)
    Uu = ["u/", "v/", "u/a_", "ü#", "w:", "x/", "uu/"]
    for _ in range(100 if tier == "quick" else 1000):
        us = rng.sample(Uu, rng.choice([1, 2, 3, 4]))
        rpm = {u: rng.choice(["a", "b"]) for u in us}
        yield {"rpm": rpm, "order": rng.sample(us, len(us))}


@domain("C13.jsonld_denotes")
def _jsonld(seed, tier):
    rng = random.Random(seed)
    vals = ["u/", "v/", {"@prefix": True, "@id": "w/"}, {"@prefix": False, "@id": "x/"}, {"@id": "y/"}, 3, None, True, ["z/"], {"@prefix": "true", "@id": "q/"}]
    keys = ["a", "b", "", "@vocab", "@base", "c", "@x"]
    for _ in range(150 if tier == "quick" else 1500):
        ks = rng.sample(keys, rng.choice([1, 2, 3, 4]))
        yield {"ctx": {k: rng.choice(vals) for k in ks}}


@domain("C13.epm_denotes")
def _epm(seed, tier):
    for specs in record_spec_lists(seed, 100 if tier == "quick" else 1000):
        if any(s[0] in s[2] or s[1] in s[3] for s in specs):
            continue
        yield {"specs": specs}


@domain("C13.path_str_object_agree")
def _pathcases(seed, tier):
    rng = random.Random(seed)
    for pm in _prefix_maps(rng, 15 if tier == "quick" else 100, bijective=True):
        yield {"pm": pm}


@domain("C13.rdflib_denotes")
def _rdfl(seed, tier):
    rng = random.Random(seed)
    for _ in range(15 if tier == "quick" else 100):
        ks = rng.sample(["a", "b", "ex", "GO"], rng.choice([1, 2, 3]))
        yield {"pm": {k: f"http://{k}.org/{rng.choice(['', 'x_', 'y#'])}" for k in ks}}


@domain("api._record_to_dict")
def _r2d(seed, tier):
    for c in worlds.converters(40 if tier == "quick" else 300, seed):
        for r in c.records:
            yield {"record": r}


SAFE_SPECS = [
    ([("a", "http://u/", [], [], None)], ":"),
    ([("a", "http://u/", ["b"], ["http://v#"], "^\\d{7}$"), ("c", "http://u/a_", [], [], None)], ":"),
    ([("GO", "http://purl/GO_", ["go", "Go"], [], "^[A-Z]\\w+\\.\\d$"), ("é", "http://ü/", [], [], None)], ":"),
    ([("a", "http://u/", [], [], "a\\\\b"), ("b", "x y", ["b c"], [], None)], ":"),
    ([("a", "http://u/", [], [], ""), ("b\\d", "http://v/", [], [], None)], ":"),
    ([("a", "http://u\\n/", [], [], None)], ":"),
]


def _safe_convs(seed, tier):
    for s, d in SAFE_SPECS:
        yield worlds.make_converter(s, d)
    rng = random.Random(seed)
    chars = "abAZ09_-.:/#\\{}^$*+?()|' é"
    for _ in range(10 if tier == "quick" else 80):
        def w(k):
            return "".join(rng.choice(chars) for _ in range(rng.randint(1, k)))
        specs = []
        for i in range(rng.choice([1, 2])):
            specs.append((f"p{i}" + w(3), f"http://h{i}/" + w(4), [f"s{i}" + w(2)] if rng.random() < 0.5 else [], [], rng.choice([None, w(6), "^\\d+$"])))
        try:
            yield worlds.make_converter(specs, ":")
        except Exception:
            continue


@domain("C14.shacl_roundtrip")
def _shacl(seed, tier):
    for c in _safe_convs(seed, tier):
        for inc in (False, True):
            yield {"conv": c, "include_synonyms": inc}


@domain("C14.tsv_roundtrip")
def _tsv(seed, tier):
    for c in _safe_convs(seed, tier):
        yield {"conv": c}


@domain("C14.epm_roundtrip")
def _epm_rt(seed, tier):
    for c in worlds.converters(20 if tier == "quick" else 150, seed):
        yield {"conv": c}
    for c in _safe_convs(seed, tier):
        yield {"conv": c}
    yield {"conv": worlds.make_converter([("a b", "u퟿/\x00", ["\n"], ["\t", "\""], "\\")], ":")}


@domain("C14.jsonld_roundtrip")
def _jsonld_rt(seed, tier):
    for c in list(worlds.converters(20 if tier == "quick" else 150, seed)) + list(_safe_convs(seed, tier)):
        for e in (False, True):
            for inc in (False, True):
                yield {"conv": c, "expand": e, "include_synonyms": inc}


DOMAINS["C14.jsonld_context_any_form"] = _jsonld_rt


@domain("api._get_jsonld_context")
def _jctx(seed, tier):
    for case in _jsonld_rt(seed, tier):
        if not case["expand"]:
            yield {"converter": case["conv"], "expand": False, "include_synonyms": case["include_synonyms"]}


@domain("api._get_expanded_term")
def _jterm(seed, tier):
    for c in worlds.converters(20 if tier == "quick" else 150, seed):
        for r in c.records:
            yield {"record": r, "expand": False}


@domain("C14.jsonld_plain_roundtrip_in_memory")
def _jl_kernel(seed, tier):
    for c in list(worlds.converters(20 if tier == "quick" else 150, seed)) + list(_safe_convs(seed, tier)):
        names = sorted({p for r in c.records for p in [r.prefix, *r.prefix_synonyms]})
        for inc in (False, True):
            for p in names[:4] + ["zz"]:
                yield {"conv": c, "include_synonyms": inc, "p": p}


@domain("api.ReferenceTuple.from_curie")
def _rtfc(seed, tier):
    for case in _split_cases(seed, tier):
        yield case


STRS = ["", "a", "GO", "a:b", ":", "é", "x y", "1", "a\tb", "\"q\"", "a\nb", "a\rb", "::", " a", "a ", "a\u00a0", "\u3000b"]


@domain("C15.print_parse")
def _pp(seed, tier):
    for p in STRS:
        for i in STRS:
            yield {"p": p, "i": i}


@domain("C15.reference_classes")
def _refcls(seed, tier):
    rng = random.Random(seed)
    pool = [s for s in STRS]
    for _ in range(150 if tier == "quick" else 1500):
        p, q = rng.choice(pool), rng.choice(pool)
        i, j = rng.choice(pool), rng.choice(pool)
        if rng.random() < 0.3:
            q, j = p, i
        yield {"p": p, "i": i, "q": q, "j": j, "name1": rng.choice(["n", "", "m"]), "name2": rng.choice(["n", "k"])}


@domain("C15.converter_context")
def _ctx(seed, tier):
    for c in worlds.converters(15 if tier == "quick" else 100, seed):
        for p in worlds.prefix_pool(c):
            for i in ["1", "", "a:b"]:
                yield {"conv": c, "p": p, "i": i}


@domain("C15.triples_roundtrip")
def _trip(seed, tier):
    rng = random.Random(seed)
    idents = ["1", "", "a:b", "x\ty", "\"q", "a\nb", "a\rb", "é", " ", "a\r\nb"]
    prefs = ["a", "GO", "é", ""]
    for _ in range(80 if tier == "quick" else 800):
        k = rng.choice([3, 3, 6])
        yield {"refs": [(rng.choice(prefs), rng.choice(idents)) for _ in range(k)]}


@domain("C16.pd_elementwise")
def _pd(seed, tier):
    rng = random.Random(seed)
    for c in worlds.converters(10 if tier == "quick" else 60, seed):
        pool = worlds.mixed_pool(c) + worlds.prefix_pool(c)
        for _ in range(6):
            cells = [rng.choice(pool) for _ in range(rng.choice([0, 1, 3]))]
            yield {"conv": c, "cells": cells, "op": rng.choice(["compress", "expand", "standardize_prefix", "standardize_curie", "standardize_uri"]),
                   "strict": rng.random() < 0.3, "passthrough": rng.random() < 0.5, "ambiguous": rng.random() < 0.5, "target": rng.random() < 0.5,
                   "labels": rng.choice([("x", "y", "other"), (1, 0, 2), (0, 1, 2), ("x", "", "other")])}


@domain("C16.file_elementwise_atomic")
def _file(seed, tier):
    rng = random.Random(seed)
    for c in worlds.converters(10 if tier == "quick" else 60, seed):
        pool = [s for s in worlds.mixed_pool(c) if "\n" not in s and "\r" not in s]
        for _ in range(6):
            ncol = rng.choice([1, 2, 3])
            nrow = rng.choice([0, 1, 2, 4])
            rows = [[rng.choice(pool) for _ in range(ncol)] for _ in range(nrow + 1)]
            if rng.random() < 0.15 and rows:
                rows[-1] = rows[-1][:1]          # a malformed (short) row
            yield {"conv": c, "rows": rows, "op": rng.choice(["compress", "expand"]), "column": rng.randrange(ncol), "header": rng.random() < 0.6,
                   "sep": rng.choice([None, None, ","]), "strict": rng.random() < 0.3, "passthrough": rng.random() < 0.5, "ambiguous": rng.random() < 0.5}


# ---------------------------------------------------------------------------------------------
# mapping service
# ---------------------------------------------------------------------------------------------
def accept_headers(rng, n):
    types = ["application/sparql-results+json", "application/sparql-results+xml", "application/sparql-results+csv",
             "application/json", "text/json", "application/xml", "text/xml", "text/csv", "text/html", "*/*", "image/png"]
    qs = [None, "0.5", "0.9", "0.1"]
    ows = ["", " "]
    out = [None, "", "text/html", "application/json", "text/html, application/json", "text/html;q=0.9,application/json;q=0.5",
           "text/csv ; q=0.5 , application/json ; q=0.9", "text/html,text/xml", "application/json;q=0.5, text/csv;q=0.9", " application/json"]
    for _ in range(n):
        k = rng.choice([1, 2, 3])
        els = []
        used = set()
        for _ in range(k):
            t = rng.choice(types)
            if t in used:
                continue
            used.add(t)
            q = rng.choice(qs)
            a, b, c = rng.choice(ows), rng.choice(ows), rng.choice(ows)
            els.append(a + t + ((b + ";" + c + "q=" + q) if q else "") + rng.choice(ows))
        out.append(",".join(els))
    return out


@domain("mapping_service.utils.handle_header")
def _hh(seed, tier):
    rng = random.Random(seed)
    for h in accept_headers(rng, 300 if tier == "quick" else 3000):
        yield {"header": h, "default": "application/sparql-results+xml"}


@domain("mapping_service.utils._handle_part")
def _hp(seed, tier):
    rng = random.Random(seed)
    for h in accept_headers(rng, 200 if tier == "quick" else 2000):
        if h:
            for part in h.split(","):
                yield {"part": part}


def _ms_convs(seed, tier):
    specs = [
        [("GO", "http://purl.obolibrary.org/obo/GO_", ["go"], ["http://amigo.geneontology.org/amigo/term/GO:", "https://identifiers.org/GO:"], None),
         ("CHEBI", "http://purl.obolibrary.org/obo/CHEBI_", [], ["https://identifiers.org/chebi/"], None)],
        [("a", "http://u/", [], ["http://v#", "not a valid uri <>"], None)],
        [("a", "http://u/", ["b"], [], None), ("c", "http://u/a_", [], ["http://w/ x"], None)],
    ]
    for s in specs:
        yield worlds.make_converter(s, ":")


@domain("mapping_service.api.MappingServiceGraph._expand_pair_all")
def _ms_expand(seed, tier):
    from curies.mapping_service.api import MappingServiceGraph
    for c in _ms_convs(seed, tier):
        g = MappingServiceGraph(converter=c)
        extra = [r.uri_prefix + t for r in c.records for t in ("a\u00a0b", "a\u2003", "\u3000", "é", "a b", "a<b", "a\\b", "a^b")]
        for u in worlds.uri_pool(c) + extra:
            yield {"self": g, "uri_in": u}


@domain("C18.expand_pair_all_are_expansions")
def _ms_members(seed, tier):
    for case in _ms_expand(seed, tier):
        for i in (0, 1, 2):
            yield {"g": case["self"], "u": case["uri_in"], "i": i}


@domain("C18.triples_dispatch")
def _ms_triples(seed, tier):
    for c in _ms_convs(seed, tier):
        extra = [r.uri_prefix + t for r in c.records for t in ("a\u00a0b", "é", "a b")]
        for u in worlds.uri_pool(c)[:25] + extra:
            for pred in ("http://www.w3.org/2002/07/owl#sameAs", "http://www.w3.org/2004/02/skos/core#exactMatch", "http://x/p"):
                for side in ("s", "o", "both", "none"):
                    for predicates in ([], ["http://www.w3.org/2004/02/skos/core#exactMatch", "http://www.w3.org/2002/07/owl#sameAs"]):
                        yield {"conv": c, "u": u, "pred": pred, "side": side, "predicates": predicates}


@domain("C18.sparql_end_to_end")
def _ms_sparql(seed, tier):
    rng = random.Random(seed)
    fmts = ["application/json", "application/sparql-results+json", "text/html, application/json", "text/csv;q=0.1, application/json;q=0.9", "text/xml"]
    for c in _ms_convs(seed, tier):
        pool = [u for u in worlds.uri_pool(c) if u.startswith("http") and " " not in u and "\n" not in u]
        for u in (pool if tier == "thorough" else rng.sample(pool, min(6, len(pool)))):
            for f in (fmts if tier == "thorough" else rng.sample(fmts, 2)):
                yield {"conv": c, "u": u, "fmt": f}
