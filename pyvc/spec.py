"""Contract vocabulary shared by the sidecar files.

The sidecar files are *parsed* (ast) by the symbolic engine and *interpreted statement by statement*
by pyvc.runtime for native evaluation on the real code; lemma bodies are additionally directly
executable (requires() raises Skip when its argument is false, assert is Python's).
"""
from __future__ import annotations

CONTRACTS: dict = {}   # qualname -> ContractInfo
LEMMAS: dict = {}      # name -> LemmaInfo


class Skip(Exception):
    """Precondition of a lemma / contract not met by this concrete input (not a violation)."""


class ContractInfo:
    def __init__(self, qualname, fn, module, opts):
        self.qualname = qualname      # e.g. "api.Converter.parse_uri"
        self.fn = fn
        self.module = module
        self.opts = opts


class LemmaInfo:
    def __init__(self, name, fn, module, opts):
        self.name = name
        self.fn = fn
        self.module = module
        self.opts = opts


def contract(qualname, **opts):
    def deco(fn):
        CONTRACTS[qualname] = ContractInfo(qualname, fn, fn.__module__, opts)
        return fn
    return deco


def lemma(name, **opts):
    def deco(fn):
        LEMMAS[name] = LemmaInfo(name, fn, fn.__module__, opts)
        return fn
    return deco


def invariant(qualname, loop=0):
    def deco(fn):
        return fn
    return deco


def requires(cond):
    if not cond:
        raise Skip()


def ensures(cond):  # only meaningful when interpreted by pyvc.runtime / pyvc.symex
    raise RuntimeError("ensures() is interpreted, never called")


def raises(exc, when=True):
    raise RuntimeError("raises() is interpreted, never called")


def may_raise(exc):
    raise RuntimeError("may_raise() is interpreted, never called")


def pure():
    pass


def modifies(*what):
    pass


def old(x):
    return x


def hint(*terms):
    """Ghost statement: names ground terms for the solver; no run-time meaning."""
    return None


def implies(a, b):
    return (not a) or b
