"""Bounded stand-ins: drive the real functions over small worlds and evaluate the sidecar contracts.

Labelled `bounded` everywhere; never contributes to obligations/discharged.
"""
from __future__ import annotations

import ast
import itertools
import random

from . import loader, runtime, worlds, domains


def _ann(node):
    out = []
    for a in node.args.args + node.args.kwonlyargs:
        out.append((a.arg, ast.unparse(a.annotation) if a.annotation is not None else None))
    return out


def default_cases(kind, name, seed, tier):
    """Yield argument dicts for contract/lemma `name` from its annotations."""
    node = loader.CONTRACT_AST[name] if kind == "contract" else loader.LEMMA_AST[name]
    params = _ann(node)
    conv_params = [p for p, a in params if a == "Converter"]
    n_random = 30 if tier == "quick" else 120
    if not conv_params:
        raise LookupError(f"no default domain for {name}")
    # one converter parameter drives the pools; further converter parameters range over all worlds too
    convs = list(worlds.converters(n_random, seed))
    rng = random.Random(seed)
    for c in convs:
        axes = []
        for p, a in params:
            if p == conv_params[0]:
                axes.append([c])
            elif a == "Converter":
                axes.append(rng.sample(convs, min(len(convs), 4)))
            elif a == "bool":
                axes.append([False, True])
            elif a == "str":
                pool = worlds.STR_PARAM_POOLS.get(p, worlds.mixed_pool)(c)
                axes.append(pool)
            elif a == "ReferenceTuple":
                from curies.api import ReferenceTuple
                axes.append([ReferenceTuple(x, y) for x in worlds.prefix_pool(c) for y in worlds.ident_pool(c)[:3]])
            else:
                raise LookupError(f"no default domain for parameter {p}: {a} of {name}")
        total = 1
        for ax in axes:
            total *= len(ax)
        cap = 300 if tier == "quick" else 1200
        if total <= cap:
            for combo in itertools.product(*axes):
                yield dict(zip([p for p, _ in params], combo))
        else:
            for _ in range(cap):
                yield {p: rng.choice(ax) for (p, _), ax in zip(params, axes)}


def cases_for(kind, name, seed, tier):
    gen = domains.DOMAINS.get(name)
    if gen is not None:
        return gen(seed, tier)
    return default_cases(kind, name, seed, tier)


def show(v):
    from curies.api import Converter, Record
    if isinstance(v, Converter):
        return worlds.describe_converter(v)
    if isinstance(v, Record):
        return (v.prefix, v.uri_prefix, list(v.prefix_synonyms), list(v.uri_prefix_synonyms), v.pattern)
    if isinstance(v, (list, tuple)) and not hasattr(v, "_fields"):
        return [show(x) for x in v]
    if isinstance(v, dict):
        return {k: show(x) for k, x in v.items()}
    if isinstance(v, (str, int, bool, float)) or v is None:
        return v
    if hasattr(v, "_fields"):
        return list(v)
    return repr(v)


def run(kind, name, seed, tier, known=None, stop_on_first=True):
    """Returns dict(cases, skipped, violations=[(args_shown, outcome)], known_hits)."""
    loader.load()
    n = skipped = 0
    viol = []
    errors = []
    distinct = set()
    for args in cases_for(kind, name, seed, tier):
        if kind == "contract":
            out = runtime.check_call(name, args)
        else:
            out = runtime.run_lemma(name, args)
        n += 1
        if out.status == "skip":
            skipped += 1
            continue
        if out.status == "ok":
            if len(distinct) < 100000:
                distinct.add(repr(show(args)))
            continue
        rec = {"raw_args": args, "args": show(args), "status": out.status, "clause": out.clause, "detail": out.detail}
        if out.status == "error":
            errors.append(rec)
            if len(errors) > 3:
                break
            continue
        viol.append(rec)
        if stop_on_first and len(viol) >= 5:
            break
    return {"cases": n, "skipped": skipped, "distinct_ok": len(distinct), "violations": viol, "errors": errors}
