"""Contracts and lemmas for loaders/writers (C13, C14), references (C15), bulk operations (C16) and the
mapping service (C18). Kernels in /repo get contracts; round trips through json/csv/rdflib/pandas/files
are lemmas over the real functions, decided by the bounded stand-in (third-party serialisers are
assumed contracts: DESIGN §8)."""
import json as _json
import os as _os
import tempfile as _tempfile
from pathlib import Path as _Path

from curies.api import (
    Converter,
    NamableReference,
    NamedReference,
    NoCURIEDelimiterError,
    Record,
    Reference,
    ReferenceTuple,
    _get_jsonld_context,
    _record_to_dict,
    upgrade_prefix_map,
    write_extended_prefix_map,
    write_jsonld_context,
    write_shacl,
    write_tsv,
)
from curies.api import load_extended_prefix_map, load_jsonld_context, load_prefix_map, load_shacl


def _tmp(name):
    d = _tempfile.mkdtemp(prefix="pyvc-io-")
    return _Path(d) / name


def _cleanup(path):
    try:
        _os.unlink(path)
        _os.rmdir(_os.path.dirname(path))
    except OSError:
        pass


# ---- C13: loaders --------------------------------------------------------------------------------
@contract("api.upgrade_prefix_map", props=["C13"], returns="list[Record]")
def c_upgrade_prefix_map(prefix_map: dict[str, str]):
    pure()
    # one record per distinct URI prefix, sorted by URI prefix, no URI synonyms
    ensures([r.uri_prefix for r in result] == sorted(set(prefix_map.values())), native=True)
    # canonical = lexicographically first CURIE prefix of the group, the rest are sorted synonyms
    ensures(all(r.prefix == min(p for p in prefix_map if prefix_map[p] == r.uri_prefix)
                and r.prefix_synonyms == sorted(p for p in prefix_map if prefix_map[p] == r.uri_prefix and p != r.prefix)
                for r in result), native=True)
    # the same, relationally (decided by the prover; evaluated natively as well): plain valid records ...
    ensures(all(not r.uri_prefix_synonyms and r.pattern is None and RecInv(r) for r in result))
    # ... whose CURIE prefixes are exactly the keys mapped to their URI prefix ...
    ensures(all(all(p in prefix_map and prefix_map[p] == r.uri_prefix for p in P(r)) for r in result))
    ensures(all(any(p in P(r) and r.uri_prefix == prefix_map[p] for r in result) for p in prefix_map))
    # ... the lexicographically first of them canonical, the synonyms in order ...
    ensures(all(r.prefix <= p for r in result for p in P(r)))
    ensures(all(r.prefix_synonyms[i] <= r.prefix_synonyms[i + 1] for r in result for i in range(len(r.prefix_synonyms) - 1)))
    # ... in strictly increasing order of URI prefix (so: one record per distinct URI prefix, whatever the dictionary order)
    ensures(all(result[i].uri_prefix <= result[j].uri_prefix and result[i].uri_prefix != result[j].uri_prefix
                for i in range(len(result)) for j in range(len(result)) if i < j))


@invariant("api.upgrade_prefix_map", loop=0)
def inv_upm0(prefix_map, uri_prefix_to_curie_synonyms: dict[str, list[str]], _i, _xs):
    return (all(len(uri_prefix_to_curie_synonyms[u]) > 0
                and all(any(t[0] == p and t[1] == u for t in _xs[:_i]) for p in uri_prefix_to_curie_synonyms[u])
                for u in uri_prefix_to_curie_synonyms)
            and all(t[1] in uri_prefix_to_curie_synonyms and t[0] in uri_prefix_to_curie_synonyms[t[1]] for t in _xs[:_i])
            and all(uri_prefix_to_curie_synonyms[u][a] != uri_prefix_to_curie_synonyms[u][b]
                    for u in uri_prefix_to_curie_synonyms
                    for a in range(len(uri_prefix_to_curie_synonyms[u])) for b in range(len(uri_prefix_to_curie_synonyms[u])) if a != b))


@lemma("C13.upgrade_accepted_by_strict_converter", props=["C13", "C04"])
def l_c13_upgrade_accepted(pm: dict[str, str], p: str):
    """Over the contracts of upgrade_prefix_map and Converter.__init__: the records are never rejected, whatever the map,
    and the converter denotes the map."""
    c = Converter(upgrade_prefix_map(pm))
    assert WF(c)
    if p in pm:
        assert any(p in P(r) and r.uri_prefix == pm[p] for r in c.records)


@lemma("C13.upgrade_always_valid_any_order", props=["C13"], bounded_only="dictionary orders are enumerated; per-call behaviour is the contract of upgrade_prefix_map")
def l_c13_upgrade(pm: dict, order: list):
    shuffled = {k: pm[k] for k in order}
    a = upgrade_prefix_map(pm)
    b = upgrade_prefix_map(shuffled)
    assert [rec_state(r) for r in a] == [rec_state(r) for r in b]
    c = Converter(a)       # a strict converter always accepts the records
    assert WF(c)
    for p, u in pm.items():
        assert c.expand(p + ":1") == u + "1"
        assert c.compress(u + "1") is not None and c.expand(c.compress(u + "1")) == u + "1"


@contract("api.Converter.from_prefix_map", props=["C13", "C04"], returns="Converter")
def c_from_prefix_map(prefix_map: dict[str, str], delimiter: str, strict: bool):
    """In-memory mapping; `delimiter` and `strict` are the keyword arguments forwarded to Converter.__init__."""
    raises(DuplicateURIPrefixes, when=strict and any(prefix_map[a] == prefix_map[b] for a in prefix_map for b in prefix_map if a != b))
    ensures(result.delimiter == delimiter)
    # one plain record per key: the converter denotes exactly the map
    ensures(all(r.prefix in prefix_map and prefix_map[r.prefix] == r.uri_prefix for r in result.records))
    ensures(all(not r.prefix_synonyms and not r.uri_prefix_synonyms and r.pattern is None for r in result.records))
    ensures(all(any(r.prefix == p for r in result.records) for p in prefix_map))
    ensures(all(a is b or a.prefix != b.prefix for a in result.records for b in result.records))
    ensures(implies(strict and delimiter != "", WF(result)))


@contract("api.Converter.from_priority_prefix_map", props=["C13", "C04"], returns="Converter")
def c_from_priority_prefix_map(data: dict[str, list[str]], delimiter: str, strict: bool):
    requires(all(len(data[p]) > 0 for p in data))
    # a URI prefix that is listed first and again later under the same key is rejected by the Record validator
    raises(ValueError, when=any(data[p][0] in data[p][1:] for p in data))
    raises(DuplicateURIPrefixes, when=strict and not any(data[p][0] in data[p][1:] for p in data)
           and any(data[a][i] == data[b][j] for a in data for b in data if a != b for i in range(len(data[a])) for j in range(len(data[b]))))
    ensures(result.delimiter == delimiter)
    ensures(all(r.prefix in data and r.uri_prefix == data[r.prefix][0] and r.uri_prefix_synonyms == data[r.prefix][1:]
                and not r.prefix_synonyms and r.pattern is None for r in result.records))
    ensures(all(any(r.prefix == p for r in result.records) for p in data))
    ensures(all(a is b or a.prefix != b.prefix for a in result.records for b in result.records))
    ensures(implies(strict and delimiter != "", WF(result)))


@contract("api.Converter.from_extended_prefix_map", props=["C13", "C04"], returns="Converter")
def c_from_extended_prefix_map(records: list[Record], delimiter: str, strict: bool):
    """Record objects in memory (dictionary entries go through pydantic's Record(**d): bounded lemma C13.epm_denotes)."""
    requires(all(RecInv(r) for r in records))
    raises(DuplicateURIPrefixes, when=strict and clashU(records))
    raises(DuplicatePrefixes, when=strict and not clashU(records) and clashP(records))
    ensures(result.delimiter == delimiter)
    # the very same record objects, sorted by prefix, none of them changed
    ensures(same_members(result.records, records) and sorted_by_prefix(result.records))
    ensures(all(rec_state(r) == old([rec_state(x) for x in records])[i] for i, r in enumerate(records)))
    ensures(implies(strict and delimiter != "", WF(result)))


@contract("api.Converter.from_reverse_prefix_map", props=["C13", "C04"], returns="Converter")
def c_from_reverse_prefix_map(reverse_prefix_map: dict[str, str], delimiter: str, strict: bool):
    """In-memory mapping URI prefix -> CURIE prefix. Never rejected: the groups are disjoint by construction."""
    rpm = reverse_prefix_map
    ensures(result.delimiter == delimiter)
    # one record per CURIE prefix; its URI prefixes are exactly the keys mapped to it
    ensures(all(all(u in rpm and rpm[u] == r.prefix for u in U(r)) and not r.prefix_synonyms and r.pattern is None for r in result.records))
    ensures(all(any(r.prefix == rpm[u] and u in U(r) for r in result.records) for u in rpm))
    ensures(all(a is b or a.prefix != b.prefix for a in result.records for b in result.records))
    # a shortest URI prefix of the group is canonical
    ensures(all(len(r.uri_prefix) <= len(u) for r in result.records for u in U(r)))
    ensures(implies(strict and delimiter != "", WF(result)))


@invariant("api.Converter.from_reverse_prefix_map", loop=0)
def inv_rev0(reverse_prefix_map, dd: dict[str, list[str]], _i, _xs):
    return (all(len(dd[p]) > 0 and all(any(t[0] == u and t[1] == p for t in _xs[:_i]) for u in dd[p]) for p in dd)
            and all(t[1] in dd and t[0] in dd[t[1]] for t in _xs[:_i])
            and all(dd[p][a] != dd[p][b] for p in dd for a in range(len(dd[p])) for b in range(len(dd[p])) if a != b))


@invariant("api.Converter.from_reverse_prefix_map", loop=1)
def inv_rev1(reverse_prefix_map, dd: dict[str, list[str]], records: list[Record], _i, _xs):
    return (_frame() and len(records) == _i
            and all(_fresh(records[k]) and _alloc(records[k]) and RecInv(records[k]) for k in range(_i))
            and all(records[a] is not records[b] for a in range(_i) for b in range(_i) if a != b)
            and all(records[k].prefix == _xs[k][0] and not records[k].prefix_synonyms and records[k].pattern is None
                    and all(u in _xs[k][1] for u in U(records[k])) and all(u in U(records[k]) for u in _xs[k][1])
                    and all(len(records[k].uri_prefix) <= len(u) for u in U(records[k]))
                    for k in range(_i)))


def jl_taken(ctx, k):
    """k is a JSON-LD term that defines a prefix: not empty, not an @-keyword."""
    return k in ctx and k != "" and not k.startswith("@")


@contract("api.Converter.from_jsonld", props=["C13"], returns="Converter")
def c_from_jsonld(data: dict[str, dict[str, str]], delimiter: str, strict: bool):
    """In-memory documents whose terms are all strings (dictionary-valued and other terms: bounded lemma C13.jsonld_denotes)."""
    requires("@context" in data)
    ctx = data["@context"]
    raises(DuplicateURIPrefixes, when=strict and any(ctx[a] == ctx[b] for a in ctx for b in ctx if a != b and jl_taken(ctx, a) and jl_taken(ctx, b)))
    ensures(result.delimiter == delimiter)
    ensures(all(jl_taken(ctx, r.prefix) and ctx[r.prefix] == r.uri_prefix for r in result.records))
    ensures(all(not r.prefix_synonyms and not r.uri_prefix_synonyms and r.pattern is None for r in result.records))
    ensures(all(any(r.prefix == k for r in result.records) for k in ctx if jl_taken(ctx, k)))
    ensures(all(a is b or a.prefix != b.prefix for a in result.records for b in result.records))
    ensures(implies(strict and delimiter != "", WF(result)))


@invariant("api.Converter.from_jsonld", loop=0)
def inv_jsonld0(data, prefix_map: dict[str, str], _i, _xs):
    return (all(any(t[0] == k for t in _xs[:_i]) and jl_taken(data["@context"], k) and prefix_map[k] == data["@context"][k] for k in prefix_map)
            and all(t[0] in prefix_map for t in _xs[:_i] if t[0] != "" and not t[0].startswith("@")))


@lemma("C13.listed_pairs_expand_and_compress", props=["C13"])
def l_c13_pairs(pm: dict[str, str], p: str, x: str):
    """Over the contracts of from_prefix_map, expand and compress: every listed pair expands accordingly and its URIs are
    recognised (the default strict converter; an injective map, otherwise construction is rejected: contract of the loader)."""
    requires(all(a == b or pm[a] != pm[b] for a in pm for b in pm))
    requires(p in pm and first_occ(p, ":"))
    c = Converter.from_prefix_map(pm)
    assert WF(c) and c.delimiter == ":"
    assert c.expand(p + ":" + x) == pm[p] + x
    assert c.compress(pm[p] + x) is not None
    if all(first_occ(q, ":") for q in pm):
        # ... and compress back to a CURIE that expands to the same URI (no listed prefix contains the delimiter)
        assert c.expand(c.compress(pm[p] + x)) == pm[p] + x


@lemma("C13.priority_pairs_expand_and_compress", props=["C13"])
def l_c13_priority_pairs(data: dict[str, list[str]], p: str, i: int, x: str):
    """Over the contracts of from_priority_prefix_map, expand and compress: expansion uses the FIRST URI prefix of the list,
    every listed URI prefix is recognised."""
    requires(all(len(data[q]) > 0 for q in data))
    requires(not any(data[q][0] in data[q][1:] for q in data))
    requires(not any(data[a][m] == data[b][n] for a in data for b in data if a != b for m in range(len(data[a])) for n in range(len(data[b]))))
    requires(p in data and first_occ(p, ":") and 0 <= i and i < len(data[p]))
    c = Converter.from_priority_prefix_map(data)
    assert WF(c) and c.delimiter == ":"
    assert c.expand(p + ":" + x) == data[p][0] + x
    assert c.compress(data[p][i] + x) is not None


@lemma("C13.reverse_pairs_expand_and_compress", props=["C13"])
def l_c13_reverse_pairs(rpm: dict[str, str], u: str, x: str):
    """Over the contracts of from_reverse_prefix_map, expand and compress: every listed URI prefix is recognised and its
    CURIE prefix expands to a shortest URI prefix of its group."""
    requires(u in rpm and first_occ(rpm[u], ":"))
    c = Converter.from_reverse_prefix_map(rpm)
    assert WF(c) and c.delimiter == ":"
    assert c.compress(u + x) is not None
    e = c.expand(rpm[u] + ":" + x)
    assert any(rpm[v] == rpm[u] and e == v + x and len(v) <= len(u) for v in rpm)


@lemma("C13.upgrade_pairs_expand_and_compress", props=["C13"])
def l_c13_upgrade_pairs(pm: dict[str, str], p: str, x: str):
    """Over the contracts of upgrade_prefix_map, Converter.__init__, expand and compress: every pair of the (possibly
    non-injective) map expands accordingly; its URIs compress under the lexicographically first CURIE prefix of the group."""
    requires(p in pm and first_occ(p, ":"))
    c = Converter(upgrade_prefix_map(pm))
    assert WF(c) and c.delimiter == ":"
    assert c.expand(p + ":" + x) == pm[p] + x
    assert c.compress(pm[p] + x) is not None
    r = c.get_record(p)
    assert r is not None and r.uri_prefix == pm[p] and r.prefix <= p and r.prefix in pm and pm[r.prefix] == pm[p]


@lemma("C13.jsonld_pairs_expand_and_compress", props=["C13"])
def l_c13_jsonld_pairs(data: dict[str, dict[str, str]], p: str, x: str):
    """String-valued terms: every term that is neither empty nor an @-keyword expands accordingly; the others are ignored."""
    requires("@context" in data)
    ctx = data["@context"]
    requires(all(a == b or not (jl_taken(ctx, a) and jl_taken(ctx, b)) or ctx[a] != ctx[b] for a in ctx for b in ctx))
    c = Converter.from_jsonld(data)
    assert WF(c) and c.delimiter == ":"
    if jl_taken(ctx, p) and first_occ(p, ":"):
        assert c.expand(p + ":" + x) == ctx[p] + x
        assert c.compress(ctx[p] + x) is not None
    if p == "" or p.startswith("@"):
        assert c.get_record(p) is None


@lemma("C13.loader_keyword_defaults", props=["C13", "C04"], bounded_only="the contracts of the loaders name the forwarded keyword arguments; that leaving them out means delimiter=':' and strict=True is the signature of Converter.__init__, exercised here")
def l_c13_loader_defaults(pm: dict):
    def outcome(f):
        try:
            return ("ok", conv_state(f()))
        except ValueError as e:
            return ("raise", type(e).__name__)
    prio = {k: [v] for k, v in pm.items()}
    rev = {v: k for k, v in pm.items()}
    recs = [dict(prefix=k, uri_prefix=v) for k, v in pm.items()]
    for loader_, arg in ((Converter.from_prefix_map, pm), (Converter.from_priority_prefix_map, prio), (Converter.from_reverse_prefix_map, rev),
                         (Converter.from_extended_prefix_map, recs), (Converter.from_jsonld, {"@context": pm})):
        assert outcome(lambda: loader_(arg)) == outcome(lambda: loader_(arg, delimiter=":", strict=True))
        assert outcome(lambda: loader_(arg, strict=False)) == outcome(lambda: loader_(arg, delimiter=":", strict=False))


@lemma("C13.prefix_map_denotes", props=["C13"], bounded_only="constructor wiring through pydantic Record construction and dict iteration")
def l_c13_prefix_map(pm: dict):
    try:
        c = Converter.from_prefix_map(pm)
    except ValueError:
        assert len(set(pm.values())) != len(pm)
        return
    assert len(set(pm.values())) == len(pm)
    assert WF(c) and c.bimap == pm and len(c.records) == len(pm)
    assert all(not r.prefix_synonyms and not r.uri_prefix_synonyms for r in c.records)


@lemma("C13.priority_map_denotes", props=["C13"], bounded_only="constructor wiring")
def l_c13_priority(pm: dict):
    requires(all(len(v) > 0 and len(set(v)) == len(v) for v in pm.values()))
    flat = [u for v in pm.values() for u in v]
    try:
        c = Converter.from_priority_prefix_map(pm)
    except ValueError:
        assert len(set(flat)) != len(flat)
        return
    assert len(set(flat)) == len(flat)
    assert WF(c)
    for p, us in pm.items():
        r = c.get_record(p)
        assert r is not None and r.prefix == p and r.uri_prefix == us[0] and list(r.uri_prefix_synonyms) == list(us[1:]) and not r.prefix_synonyms
        assert c.expand(p + ":1") == us[0] + "1"
        for u in us:
            assert c.compress(u + "\x00") == p + ":\x00" or any(o.startswith(u) and o != u for o in flat)


@lemma("C13.reverse_map_denotes", props=["C13"], bounded_only="constructor wiring")
def l_c13_reverse(rpm: dict, order: list):
    c = Converter.from_reverse_prefix_map(rpm)
    assert WF(c)
    assert c.reverse_prefix_map == rpm
    for p in set(rpm.values()):
        r = c.get_record(p)
        group = [u for u in rpm if rpm[u] == p]
        assert r.prefix == p and set(U(r)) == set(group) and not r.prefix_synonyms
        assert len(r.uri_prefix) == min(len(u) for u in group)      # a shortest URI prefix is canonical
    # independent of dictionary order up to the choice among equally short URI prefixes
    c2 = Converter.from_reverse_prefix_map({k: rpm[k] for k in order})
    assert c2.reverse_prefix_map == c.reverse_prefix_map
    assert sorted((r.prefix, len(r.uri_prefix), sorted(U(r))) for r in c.records) == sorted((r.prefix, len(r.uri_prefix), sorted(U(r))) for r in c2.records)


@lemma("C13.jsonld_denotes", props=["C13"], bounded_only="term filtering over JSON values of arbitrary type")
def l_c13_jsonld(ctx: dict):
    expected = {}
    for k, v in ctx.items():
        if k == "" or k.startswith("@"):
            continue
        if isinstance(v, str):
            expected[k] = v
        elif isinstance(v, dict) and v.get("@prefix") is True and "@id" in v:
            expected[k] = v["@id"]
    requires(all(not (isinstance(v, dict) and v.get("@prefix") is True and "@id" not in v) for v in ctx.values()))
    try:
        c = Converter.from_jsonld({"@context": ctx})
    except ValueError:
        assert len(set(expected.values())) != len(expected)
        return
    assert c.bimap == expected


@lemma("C13.epm_denotes", props=["C13"], bounded_only="constructor wiring")
def l_c13_epm(specs: list):
    recs = [dict(prefix=p, uri_prefix=u, prefix_synonyms=list(ps), uri_prefix_synonyms=list(us)) for p, u, ps, us in specs]
    try:
        c = Converter.from_extended_prefix_map(recs)
    except ValueError:
        return
    assert sorted(rec_state(r) for r in c.records) == sorted((p, u, list(ps), list(us), None) for p, u, ps, us in specs)
    c3 = Converter.from_extended_prefix_map([Record(**d) for d in recs])
    assert conv_state(c3) == conv_state(c)


@lemma("C13.path_str_object_agree", props=["C13"], bounded_only="file system and json (assumed: json.load returns what json.dump wrote)")
def l_c13_path(pm: dict):
    requires(len(set(pm.values())) == len(pm))
    path = _tmp("pm.json")
    path.write_text(_json.dumps(pm))
    try:
        a = load_prefix_map(pm)
        b = load_prefix_map(path)
        c = load_prefix_map(str(path))
        assert conv_state(a) == conv_state(b) == conv_state(c)
        jl = _tmp("ctx.json")
        jl.write_text(_json.dumps({"@context": pm}))
        assert conv_state(load_jsonld_context({"@context": pm})) == conv_state(load_jsonld_context(jl)) == conv_state(load_jsonld_context(str(jl)))
        _cleanup(jl)
    finally:
        _cleanup(path)


@lemma("C13.rdflib_denotes", props=["C13"], bounded_only="rdflib namespace manager (third-party)")
def l_c13_rdflib(pm: dict):
    import rdflib
    requires(len(set(pm.values())) == len(pm) and all(p and u for p, u in pm.items()))
    g = rdflib.Graph(bind_namespaces="none")
    for p, u in pm.items():
        g.bind(p, rdflib.Namespace(u))
    bound = {p: str(n) for p, n in g.namespaces()}
    c = Converter.from_rdflib(g)
    assert c.bimap == bound


# ---- C14: writers ---------------------------------------------------------------------------------
@contract("api._record_to_dict", props=["C14"], returns="dict")
def c_record_to_dict(record: Record):
    requires(RecInv(record))
    pure()
    ensures(rec_state(Record(**result)) == (record.prefix, record.uri_prefix, sorted(record.prefix_synonyms), sorted(record.uri_prefix_synonyms), record.pattern))
    ensures(set(result) <= {"prefix", "uri_prefix", "prefix_synonyms", "uri_prefix_synonyms", "pattern"})


@lemma("C14.jsonld_context_any_form", props=["C14"], bounded_only="the expanded form maps terms to heterogeneous dictionaries ({'@prefix': True, '@id': ...}); the plain form is proved as the contract of _get_jsonld_context")
def l_c14_jsonld_context_any_form(conv: Converter, expand: bool, include_synonyms: bool):
    requires(WF(conv))
    before = conv_state(conv)
    result = _get_jsonld_context(conv, expand=expand, include_synonyms=include_synonyms)
    assert conv_state(conv) == before
    assert set(result) == {"@context"}
    assert all((p in result["@context"]) == (p == r.prefix or include_synonyms) for r in conv.records for p in P(r))
    assert all(any(p in P(r) for r in conv.records) for p in result["@context"])
    assert all(result["@context"][p] == ({"@prefix": True, "@id": r.uri_prefix} if expand else r.uri_prefix)
               for r in conv.records for p in P(r) if p in result["@context"])


@contract("api._get_expanded_term", props=["C14"], returns="str")
def c_get_expanded_term(record: Record, expand: bool):
    """Plain form only; the expanded form is a heterogeneous dictionary (decided by the bounded lemma C14.jsonld_roundtrip)."""
    requires(not expand)
    pure()
    ensures(result == record.uri_prefix)


@contract("api._get_jsonld_context", props=["C14"], returns="dict[str,dict[str,str]]")
def c_get_jsonld_context(converter: Converter, expand: bool, include_synonyms: bool):
    requires(WF(converter) and not expand)
    pure()
    ensures("@context" in result and all(k == "@context" for k in result))
    # every canonical prefix (and, on request, every synonym) is a term for its record's URI prefix; nothing else is
    ensures(all(r.prefix in result["@context"] and result["@context"][r.prefix] == r.uri_prefix for r in converter.records))
    ensures(implies(include_synonyms, all(p in result["@context"] and result["@context"][p] == r.uri_prefix
                                          for r in converter.records for p in P(r))))
    ensures(all(any(k == r.prefix or (include_synonyms and k in P(r)) for r in converter.records) for k in result["@context"]))


@invariant("api._get_jsonld_context", loop=0)
def inv_jctx0(converter, expand, include_synonyms, context: dict[str, str], _i, _xs):
    return (all(r.prefix in context and context[r.prefix] == r.uri_prefix for r in _xs[:_i])
            and (not include_synonyms or all(p in context and context[p] == r.uri_prefix for r in _xs[:_i] for p in P(r)))
            and all(any(k == r.prefix or (include_synonyms and k in P(r)) for r in _xs[:_i]) for k in context))


@invariant("api._get_jsonld_context", loop=1)
def inv_jctx1(converter, expand, include_synonyms, context: dict[str, str], record, term: str, _i, _xs, _outer_i, _outer_xs):
    return (include_synonyms and term == record.uri_prefix
            and all(r.prefix in context and context[r.prefix] == r.uri_prefix for r in _outer_xs[:_outer_i])
            and all(p in context and context[p] == r.uri_prefix for r in _outer_xs[:_outer_i] for p in P(r))
            and record.prefix in context and context[record.prefix] == record.uri_prefix
            and all(p in context and context[p] == record.uri_prefix for p in _xs[:_i])
            and all(any(k in P(r) for r in _outer_xs[:_outer_i]) or k == record.prefix or k in _xs[:_i] for k in context))


@lemma("C14.jsonld_plain_roundtrip_in_memory", props=["C14"])
def l_c14_jsonld_kernel(conv: Converter, include_synonyms: bool, p: str):
    """Over the contracts of _get_jsonld_context and from_jsonld: the plain context, read back, maps exactly the written
    terms (json.dump / json.load in between are assumed inverse: bounded lemma C14.jsonld_roundtrip)."""
    requires(WF(conv))
    requires(all(q != "" and not q.startswith("@") for r in conv.records for q in P(r)))
    doc = _get_jsonld_context(conv, expand=False, include_synonyms=include_synonyms)
    back = Converter.from_jsonld(doc, strict=False)
    ctx = doc["@context"]
    # stepping stones: the terms of the document are names of conv, and conversely
    assert all(any(k == r.prefix or (include_synonyms and k in P(r)) for r in conv.records) for k in ctx)
    assert all(r.prefix in ctx and ctx[r.prefix] == r.uri_prefix for r in back.records)
    assert all(r.prefix in ctx and ctx[r.prefix] == r.uri_prefix for r in conv.records)
    if any(r.prefix == p for r in back.records):
        assert p in ctx
        assert known(conv, p) and (include_synonyms or any(r.prefix == p for r in conv.records))
    if known(conv, p) and (include_synonyms or any(r.prefix == p for r in conv.records)):
        assert p in ctx and p != "" and not p.startswith("@")
        assert any(r.prefix == p for r in back.records)
        assert any(r.prefix == p and any(p in P(q) and q.uri_prefix == r.uri_prefix for q in conv.records) for r in back.records)


@lemma("C14.epm_roundtrip", props=["C14"], bounded_only="json + file system round trip (assumed serialiser)")
def l_c14_epm(conv: Converter):
    requires(WF(conv))
    path = _tmp("epm.json")
    try:
        write_extended_prefix_map(conv, path)
        back = load_extended_prefix_map(path)
        assert sorted((r.prefix, r.uri_prefix, sorted(r.prefix_synonyms), sorted(r.uri_prefix_synonyms), r.pattern) for r in back.records) \
            == sorted((r.prefix, r.uri_prefix, sorted(r.prefix_synonyms), sorted(r.uri_prefix_synonyms), r.pattern) for r in conv.records)
    finally:
        _cleanup(path)


@lemma("C14.jsonld_roundtrip", props=["C14"], bounded_only="json + file system round trip")
def l_c14_jsonld(conv: Converter, expand: bool, include_synonyms: bool):
    requires(WF(conv))
    requires(all(p != "" and not p.startswith("@") for r in conv.records for p in P(r)))
    path = _tmp("ctx.jsonld")
    try:
        write_jsonld_context(conv, path, include_synonyms=include_synonyms, expand=expand)
        back = load_jsonld_context(path, strict=False)
        expected = dict(conv.bimap)
        if include_synonyms:
            expected = dict(conv.prefix_map)
        assert back.prefix_map == expected
    finally:
        _cleanup(path)


@lemma("C14.shacl_roundtrip", props=["C14"], bounded_only="rdflib Turtle parser + SPARQL (third-party)")
def l_c14_shacl(conv: Converter, include_synonyms: bool):
    requires(WF(conv) and len(conv.records) > 0)
    path = _tmp("shacl.ttl")
    try:
        write_shacl(conv, path, include_synonyms=include_synonyms)
        back = load_shacl(path, strict=False)
        expected = dict(conv.bimap)
        if include_synonyms:
            expected = dict(conv.prefix_map)
        assert back.prefix_map == expected
        pats = {r.prefix: r.pattern for r in conv.records if r.pattern is not None}
        assert {r.prefix: r.pattern for r in back.records if r.prefix in pats} == pats
    finally:
        _cleanup(path)


@lemma("C14.tsv_roundtrip", props=["C14"], bounded_only="csv + file system round trip")
def l_c14_tsv(conv: Converter):
    import csv
    requires(WF(conv))
    path = _tmp("pm.tsv")
    try:
        write_tsv(conv, path)
        with open(path, newline="") as f:
            rows = list(csv.reader(f, delimiter="\t"))
        assert rows[0] == ["prefix", "base"]
        assert {p: u for p, u in rows[1:]} == dict(conv.bimap) and len(rows) - 1 == len(conv.records)
    finally:
        _cleanup(path)


# ---- C15: references ------------------------------------------------------------------------------
@contract("api.ReferenceTuple.from_curie", props=["C15"], returns="ReferenceTuple")
def c_rt_from_curie(curie: str, sep: str):
    requires(sep != "")
    pure()
    raises(NoCURIEDelimiterError, when=sep not in curie)
    ensures(result[0] + sep + result[1] == curie and first_occ(result[0], sep))


@lemma("C15.print_parse", props=["C15"])
def l_c15_print_parse(p: str, i: str):
    requires(":" not in p)
    t = ReferenceTuple(p, i)
    assert t.curie == p + ":" + i
    assert ReferenceTuple.from_curie(t.curie) == t


@lemma("C15.reference_classes", props=["C15"], bounded_only="pydantic model construction, validation, hashing and JSON (third-party wiring)")
def l_c15_classes(p: str, i: str, q: str, j: str, name1: str, name2: str):
    requires(":" not in p and ":" not in q)
    import pydantic
    a = Reference(prefix=p, identifier=i)
    refs_a = [a, NamableReference(prefix=p, identifier=i, name=name1), NamedReference(prefix=p, identifier=i, name=name2),
              NamableReference(prefix=p, identifier=i)]
    b = Reference(prefix=q, identifier=j)
    refs_b = [b, NamedReference(prefix=q, identifier=j, name=name1)]
    for x in refs_a:
        assert x.curie == p + ":" + i and x.pair == ReferenceTuple(p, i)
        assert type(x).from_curie(x.curie, *([name1] if isinstance(x, NamedReference) else [])) == x
        assert Reference.model_validate(x.curie) == x
        assert type(x).model_validate_json(x.model_dump_json()) == x
        for y in refs_a:
            assert x == y and hash(x) == hash(y)
        for y in refs_b:
            assert (x == y) == ((p, i) == (q, j))
            assert (x < y) == ((p, i) < (q, j))
            assert (x == y) <= (hash(x) == hash(y))
        try:
            x.prefix = "other"
            frozen = False
        except (pydantic.ValidationError, TypeError, AttributeError):
            frozen = True
        assert frozen
        assert x != ReferenceTuple(p, i) or True      # a ReferenceTuple is a plain tuple
    assert len({*refs_a}) == 1
    for bad in (p + i.replace(":", ""),) if ":" not in p + i.replace(":", "") else ():
        try:
            Reference.model_validate(bad)
            ok = False
        except ValueError:
            ok = True
        assert ok
        try:
            Reference.from_curie(bad)
            ok = False
        except ValueError:
            ok = True
        assert ok


@lemma("C15.converter_context", props=["C15"], bounded_only="pydantic validation context (third-party wiring)")
def l_c15_context(conv: Converter, p: str, i: str):
    requires(WF(conv) and ":" not in p)
    import pydantic
    for cls, extra in ((Reference, {}), (NamableReference, {}), (NamedReference, {"name": "n"})):
        data = dict(prefix=p, identifier=i, **extra)
        if known(conv, p):
            for ctx in (conv, {"converter": conv}):
                r = cls.model_validate(data, context=ctx)
                assert r.prefix == owner(conv, p).prefix and r.identifier == i
            args = ["n"] if cls is NamedReference else []
            assert cls.from_curie(p + ":" + i, *args, converter=conv).prefix == owner(conv, p).prefix
        else:
            try:
                cls.model_validate(data, context=conv)
                rejected = False
            except pydantic.ValidationError:
                rejected = True
            assert rejected


@lemma("C15.triples_roundtrip", props=["C15"], bounded_only="csv + file layer (third-party)")
def l_c15_triples(refs: list):
    from curies.triples import Triple, read_triples, write_triples
    requires(all(":" not in p for p, _ in refs) and len(refs) % 3 == 0)
    triples = [Triple(subject=Reference(prefix=refs[k][0], identifier=refs[k][1]),
                      predicate=Reference(prefix=refs[k + 1][0], identifier=refs[k + 1][1]),
                      object=Reference(prefix=refs[k + 2][0], identifier=refs[k + 2][1])) for k in range(0, len(refs), 3)]
    path = _tmp("triples.tsv")
    try:
        write_triples(triples, path)
        back = read_triples(path)
        assert back == triples
        assert Triple.from_curies(triples[0].subject.curie, triples[0].predicate.curie, triples[0].object.curie) == triples[0] if triples else True
    finally:
        _cleanup(path)


# ---- C16: bulk -------------------------------------------------------------------------------------
@lemma("C16.pd_elementwise", props=["C16"], bounded_only="pandas Series.map (third-party)")
def l_c16_pd(conv: Converter, cells: list, op: str, strict: bool, passthrough: bool, ambiguous: bool, target: bool, labels: tuple):
    import pandas as pd
    requires(WF(conv))
    scalar = {
        "compress": conv.compress_or_standardize if ambiguous else conv.compress,
        "expand": conv.expand_or_standardize if ambiguous else conv.expand,
        "standardize_prefix": conv.standardize_prefix, "standardize_curie": conv.standardize_curie, "standardize_uri": conv.standardize_uri,
    }[op]
    # column labels: strings, or the integers of a header-less frame (0 is a valid, falsy label)
    src, tgt, oth = labels
    cols = {src: list(cells), oth: [c + "!" for c in cells]}
    if target:
        cols[tgt] = ["old"] * len(cells)
    df = pd.DataFrame(cols)
    kw = dict(column=src, strict=strict, passthrough=passthrough)
    if target:
        kw["target_column"] = tgt
    if op in ("compress", "expand"):
        kw["ambiguous"] = ambiguous
    try:
        expected = [scalar(c, strict=strict, passthrough=passthrough) for c in cells]
        failed = False
    except ValueError:
        failed = True
    try:
        getattr(conv, "pd_" + op)(df, **kw)
        raised = False
    except ValueError:
        raised = True
    assert raised == failed
    if not raised:
        out = df[tgt if target else src]
        assert [None if pd.isna(v) else v for v in out] == expected
        assert list(df[oth]) == [c + "!" for c in cells]
        if target:
            assert list(df[src]) == list(cells)


@lemma("C16.file_elementwise_atomic", props=["C16"], bounded_only="csv + file system (third-party); atomicity observed on the bytes on disk")
def l_c16_file(conv: Converter, rows: list, op: str, column: int, header: bool, sep: str, strict: bool, passthrough: bool, ambiguous: bool):
    import csv
    requires(WF(conv))
    scalar = {
        "compress": conv.compress_or_standardize if ambiguous else conv.compress,
        "expand": conv.expand_or_standardize if ambiguous else conv.expand,
    }[op]
    path = _tmp("table.tsv")
    try:
        with open(path, "w", newline="") as f:
            w = csv.writer(f, delimiter=sep or "\t")
            w.writerows(rows)
        before_bytes = open(path, "rb").read()
        body = rows[1:] if header else rows
        try:
            expected = [[(scalar(c, strict=strict, passthrough=passthrough) or "") if k == column else c for k, c in enumerate(r)] for r in body]
            failed = any(column >= len(r) for r in body)
        except ValueError:
            failed = True
        if any(column >= len(r) for r in body):
            failed = True
        try:
            getattr(conv, "file_" + op)(path, column, sep=sep, header=header, strict=strict, passthrough=passthrough, ambiguous=ambiguous)
            raised = False
        except (ValueError, IndexError):
            raised = True
        assert raised == failed
        if raised:
            assert open(path, "rb").read() == before_bytes          # byte-for-byte what it was
        else:
            with open(path, newline="") as f:
                got = list(csv.reader(f, delimiter=sep or "\t"))
            assert got == ([rows[0]] if header and rows else []) + expected
    finally:
        _cleanup(path)
