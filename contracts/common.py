"""Spec helpers shared by all sidecar contract files.

Everything here is ordinary executable Python (evaluated by CPython on real objects in replay /
bounded / monitor mode) *and* is inlined by the symbolic engine (pyvc.symex) when it translates a
contract: the engine reads this file with `ast` and macro-expands calls to these helpers.
Keep each helper a single `return <expr>`.
"""
from __future__ import annotations


# ---- record-level views -------------------------------------------------------------------
def P(r):
    """All CURIE prefixes of a record (canonical + synonyms)."""
    return {r.prefix, *r.prefix_synonyms}


def U(r):
    """All URI prefixes of a record (canonical + synonyms)."""
    return {r.uri_prefix, *r.uri_prefix_synonyms}


def RecInv(r):
    return r.prefix not in r.prefix_synonyms and r.uri_prefix not in r.uri_prefix_synonyms


# ---- converter-level views ----------------------------------------------------------------
def known(c, p):
    """p is a CURIE prefix or synonym of some record of c."""
    return any(p in P(r) for r in c.records)


def uknown(c, u):
    """u is a URI prefix or synonym of some record of c."""
    return any(u in U(r) for r in c.records)


def owner(c, p):
    """The record owning CURIE prefix p (a function under Uniq)."""
    return next(r for r in c.records if p in P(r))


def uowner(c, u):
    return next(r for r in c.records if u in U(r))


def Uniq(c):
    return all(
        P(a).isdisjoint(P(b)) and U(a).isdisjoint(U(b))
        for i, a in enumerate(c.records)
        for j, b in enumerate(c.records)
        if i != j
    )


def IndexedP(c):
    """prefix_map / synonym_to_prefix are exactly the functions of the records __init__ computes."""
    return (
        all(
            p in c.prefix_map
            and c.prefix_map[p] == r.uri_prefix
            and p in c.synonym_to_prefix
            and c.synonym_to_prefix[p] == r.prefix
            for r in c.records
            for p in P(r)
        )
        and all(known(c, p) for p in c.prefix_map)
        and all(known(c, p) for p in c.synonym_to_prefix)
    )


def IndexedU(c):
    """reverse_prefix_map and the trie are exactly the functions of the records __init__ computes."""
    return (
        all(
            u in c.reverse_prefix_map
            and c.reverse_prefix_map[u] == r.prefix
            and u in c.trie
            and c.trie[u] == r.prefix
            for r in c.records
            for u in U(r)
        )
        and all(uknown(c, u) for u in c.reverse_prefix_map)
        and all(uknown(c, u) for u in c.trie)
    )


def IndexedPat(c):
    return all(
        ((r.prefix in c.pattern_map and c.pattern_map[r.prefix] == r.pattern) if r.pattern else r.prefix not in c.pattern_map)
        for r in c.records
    ) and all(any(r.prefix == p for r in c.records) for p in c.pattern_map)


def Indexed(c):
    return IndexedP(c) and IndexedU(c) and IndexedPat(c)


def WF(c):
    """Representation invariant of a strict converter."""
    return all(RecInv(r) for r in c.records) and Uniq(c) and Indexed(c) and c.delimiter != ""


# ---- string-level helpers -----------------------------------------------------------------
def first_occ(p, d):
    """The first occurrence of d in p+d is at position len(p) (d does not start earlier)."""
    return (p + d).find(d) == len(p)


def before(s, d):
    return s.partition(d)[0]


def after(s, d):
    return s.partition(d)[2]


# ---- URI side ------------------------------------------------------------------------------
def uri_hit(c, u):
    """Some registered URI prefix (canonical or synonym, of any record) is a prefix of u."""
    return any(u.startswith(k) for r in c.records for k in U(r))


def is_longest(c, u, k):
    """No registered URI prefix that is a prefix of u is longer than k."""
    return all(len(k2) <= len(k) for r2 in c.records for k2 in U(r2) if u.startswith(k2))


def uri_parse_is(c, u, p, rest):
    """(p, rest) is the parse of u: p canonical prefix of the record owning the longest registered
    URI prefix k of u, rest the remainder after k."""
    return any(
        u.startswith(k) and is_longest(c, u, k) and p == r.prefix and rest == u[len(k):]
        for r in c.records
        for k in U(r)
    )


# ---- CURIE side ----------------------------------------------------------------------------
def curie_ok(c, s):
    """s contains the delimiter and the part before its first occurrence is a known prefix."""
    return c.delimiter in s and known(c, before(s, c.delimiter))


def sub_names(c1, c2):
    """Every name of c1 is registered in c2 under a record with the same canonical prefix / URI prefix."""
    return (
        all(any(p in P(r2) and r2.prefix == r.prefix and r2.uri_prefix == r.uri_prefix for r2 in c2.records)
            for r in c1.records for p in P(r))
        and all(any(u in U(r2) and r2.prefix == r.prefix and r2.uri_prefix == r.uri_prefix for r2 in c2.records)
                for r in c1.records for u in U(r))
    )


def same_names(c1, c2):
    """c1 and c2 have the same set-level view V(c): same names, same owner structure, same delimiter."""
    return sub_names(c1, c2) and sub_names(c2, c1) and c1.delimiter == c2.delimiter


def prefix_free(c):
    """No registered URI prefix is a proper prefix of another."""
    return all(
        implies_(k2.startswith(k1), k1 == k2)
        for r1 in c.records for k1 in U(r1)
        for r2 in c.records for k2 in U(r2)
    )


def implies_(a, b):
    return (not a) or b


def delim_free_names(c):
    """Every CURIE prefix p of c satisfies first_occ(p, delimiter)."""
    return all(first_occ(p, c.delimiter) for r in c.records for p in P(r))
