"""Deliberately FALSE lemmas: the engine must fail to prove each (soundness self-test, `./check selftest`)."""
from curies.api import Converter


@lemma("selftest.false_compress_identity", props=["SELFTEST"], expect="fail")
def st_false1(conv: Converter, u: str):
    requires(WF(conv))
    c = conv.compress(u)
    if c is not None:
        assert c == u


@lemma("selftest.false_without_prefix_free", props=["SELFTEST"], expect="fail")
def st_false2(conv: Converter, c: str):
    """C03 lemma 4 with the prefix-free hypothesis dropped must be unprovable."""
    requires(WF(conv) and delim_free_names(conv))
    x = conv.expand(c)
    if x is not None:
        assert conv.compress(x) == conv.standardize_curie(c)


@lemma("selftest.false_without_wf", props=["SELFTEST"], expect="fail")
def st_false3(conv: Converter, p: str):
    p1 = conv.standardize_prefix(p)
    if p1 is not None:
        assert conv.standardize_prefix(p1) == p1


@lemma("selftest.false_order", props=["SELFTEST"], expect="fail")
def st_false4(c1: Converter, c2: Converter, u: str):
    requires(WF(c1) and WF(c2))
    assert c1.compress(u) == c2.compress(u)


# ---- deliberately FALSE contracts on real functions (keys "qualname#tag"; never part of a property's cone) ------------
from curies.api import CompressionError, Record


@contract("api.Converter.parse_uri#off_by_one", props=["SELFTEST"], expect="fail", returns="ReferenceTuple|None")
def c_false_parse_uri(self: Converter, uri: str, strict: bool, return_none: bool):
    """Claims the remainder starts one character after the matched prefix."""
    requires(WF(self))
    pure()
    hit = uri_hit(self, uri)
    raises(CompressionError, when=not hit and strict)
    ensures(implies(hit, result is not None and any(
        uri.startswith(k) and is_longest(self, uri, k) and result[0] == r.prefix and result[1] == uri[len(k) + 1:]
        for r in self.records for k in U(r))))
    ensures(implies(not hit and return_none, result is None))
    ensures(implies(not hit and not return_none, result == (None, None)))


@contract("api.Converter.add_record#never_grows", props=["SELFTEST"], expect="fail", returns="None")
def c_false_add_record(self: Converter, record: Record, case_sensitive: bool, merge: bool):
    """Claims add_record never changes the number of records."""
    requires(WF(self) and RecInv(record) and all(r is not record for r in self.records))
    may_raise(ValueError)
    modifies(self, *self.records)
    ensures(len(self.records) == old(len(self.records)))


@contract("api.Converter.__init__#wf_without_strict", props=["SELFTEST"], expect="fail", returns="None")
def c_false_init(self: Converter, records: list[Record], delimiter: str, strict: bool):
    """Claims the representation invariant even for non-strict construction."""
    requires(all(RecInv(r) for r in records) and delimiter != "")
    may_raise(ValueError)
    modifies(self)
    ensures(WF(self))


@contract("api.Converter.from_priority_prefix_map#last_is_canonical", props=["SELFTEST"], expect="fail", returns="Converter")
def c_false_priority(data: dict[str, list[str]], delimiter: str, strict: bool):
    """Claims the LAST URI prefix of each list becomes canonical."""
    requires(all(len(data[p]) > 0 for p in data))
    may_raise(ValueError)
    ensures(all(r.prefix in data and r.uri_prefix == data[r.prefix][len(data[r.prefix]) - 1] for r in result.records))


@contract("api.Converter.from_reverse_prefix_map#longest_is_canonical", props=["SELFTEST"], expect="fail", returns="Converter")
def c_false_reverse(reverse_prefix_map: dict[str, str], delimiter: str, strict: bool):
    """Claims a longest URI prefix of each group is canonical."""
    ensures(all(len(r.uri_prefix) >= len(u) for r in result.records for u in U(r)))


@contract("api.upgrade_prefix_map#sorted_by_prefix", props=["SELFTEST"], expect="fail", returns="list[Record]")
def c_false_upgrade(prefix_map: dict[str, str]):
    """Claims the records come out ordered by CURIE prefix (they are ordered by URI prefix)."""
    pure()
    ensures(all(result[i].prefix <= result[j].prefix for i in range(len(result)) for j in range(len(result)) if i < j))


@contract("api.Record.prefix_not_in_synonyms#accepts_everything", props=["SELFTEST"], expect="fail", returns="list[str]")
def c_false_validator(v: list[str], values: dict[str, str]):
    """Claims the validator never rejects."""
    requires("prefix" in values)
    pure()
    ensures(result == v)


@lemma("selftest.false_ctor_accepts_own_synonym", props=["SELFTEST"], expect="fail")
def l_false_ctor(p: str, u: str):
    """A record listing its canonical prefix among its synonyms would be constructed."""
    r = Record(prefix=p, uri_prefix=u, prefix_synonyms=[p])
    assert r.prefix == p
