"""Deliberately FALSE lemmas: the engine must fail to prove each (soundness self-test, `./check selftest`)."""
from curies.api import Converter


@lemma("selftest.false_compress_identity", props=["SELFTEST"], expect="fail")
def st_false1(conv: Converter, u: str):
    requires(WF(conv))
    c = conv.compress(u)
    if c is not None:
        assert c == u


@lemma("selftest.false_without_prefix_free", props=["SELFTEST"], expect="fail")
def st_false2(conv: Converter, c: str):
    """C03 lemma 4 with the prefix-free hypothesis dropped must be unprovable."""
    requires(WF(conv) and delim_free_names(conv))
    x = conv.expand(c)
    if x is not None:
        assert conv.compress(x) == conv.standardize_curie(c)


@lemma("selftest.false_without_wf", props=["SELFTEST"], expect="fail")
def st_false3(conv: Converter, p: str):
    p1 = conv.standardize_prefix(p)
    if p1 is not None:
        assert conv.standardize_prefix(p1) == p1


@lemma("selftest.false_order", props=["SELFTEST"], expect="fail")
def st_false4(c1: Converter, c2: Converter, u: str):
    requires(WF(c1) and WF(c2))
    assert c1.compress(u) == c2.compress(u)
