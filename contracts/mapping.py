"""Contracts for the mapping service (C18), up to the rdflib / web-framework boundary."""
from curies.api import Converter
from curies.mapping_service.api import MappingServiceGraph
from curies.mapping_service.utils import CONTENT_TYPE_SYNONYMS, CONTENT_TYPE_TO_RDFLIB_FORMAT, DEFAULT_CONTENT_TYPE


def spec_negotiate(header, default):
    """Highest-q supported media type of a well-formed Accept header (RFC 7231: elements separated by ',', parameters
    by ';', optional whitespace around both); ties go to the earlier element; synonyms are mapped; else the default."""
    return default if not header else next(
        (mt for _, _, mt in sorted(
            (-max([float(p.strip()[2:]) for p in el.split(";")[1:] if p.strip().startswith("q=")] or [1.0]), idx,
             CONTENT_TYPE_SYNONYMS.get(el.split(";")[0].strip(), el.split(";")[0].strip()))
            for idx, el in enumerate(header.split(",")))
         if mt in CONTENT_TYPE_TO_RDFLIB_FORMAT),
        default)


@contract("mapping_service.utils.handle_header", props=["C18"])
def c_handle_header(header: "str|None", default: str):
    pure()
    ensures(result == spec_negotiate(header, default))


@contract("mapping_service.utils._handle_part", props=["C18"], returns="tuple[str,float]")
def c_handle_part(part: str):
    pure()
    ensures(result[0] == part.split(";")[0].strip()
            and result[1] == max([float(p.strip()[2:]) for p in part.split(";")[1:] if p.strip().startswith("q=")] or [1.0]))


def equivalent_uris(conv, u):
    """The syntactically valid members of expand_all(compress(u)); nothing for unrecognised URIs."""
    return [] if conv.compress(u) is None else [x for x in conv.expand_all(conv.compress(u)) if _is_valid_uri(x)]


def _is_valid_uri(x):
    from rdflib.term import _is_valid_uri as f
    return f(x)


def ms_longest(conv, uri_in, r, k):
    """k is a URI prefix of record r and the longest registered URI prefix of uri_in (k and r are unique under WF)."""
    return k in U(r) and uri_in.startswith(k) and is_longest(conv, uri_in, k)


def ms_only(conv, uri_in, result):
    """Every result renders uri_in's identifier under a URI prefix of the owning record."""
    return any(uri_in.startswith(k) and is_longest(conv, uri_in, k)
               and all(str(x) == r.uri_prefix + uri_in[len(k):] or any(str(x) == s + uri_in[len(k):] for s in r.uri_prefix_synonyms) for x in result)
               for r in conv.records for k in U(r))


def ms_canonical(conv, uri_in, result):
    return any(uri_in.startswith(k) and is_longest(conv, uri_in, k)
               and (not _is_valid_uri(r.uri_prefix + uri_in[len(k):]) or any(str(x) == r.uri_prefix + uri_in[len(k):] for x in result))
               for r in conv.records for k in U(r))


def ms_synonyms(conv, uri_in, result):
    return any(uri_in.startswith(k) and is_longest(conv, uri_in, k)
               and all(not _is_valid_uri(s + uri_in[len(k):]) or any(str(x) == s + uri_in[len(k):] for x in result) for s in r.uri_prefix_synonyms)
               for r in conv.records for k in U(r))


@contract("mapping_service.api.MappingServiceGraph._expand_pair_all", props=["C18"], returns="list[str]")
def c_ms_expand_pair_all(self: MappingServiceGraph, uri_in: str):
    requires(WF(self.converter))
    pure()
    conv = self.converter
    hit = uri_hit(conv, uri_in)
    # the strict=True call inside never raises: there is no raises-clause
    ensures(implies(not hit, len(result) == 0))
    ensures(implies(hit, all(_is_valid_uri(str(x)) for x in result)))
    # exactly the syntactically valid renderings under every URI prefix of the record owning the longest registered prefix
    # (three clauses, each naming that record existentially; it is unique under WF)
    ensures(implies(hit, ms_only(conv, uri_in, result)))
    ensures(implies(hit, ms_canonical(conv, uri_in, result)))
    ensures(implies(hit, ms_synonyms(conv, uri_in, result)))
    ensures([str(x) for x in result] == equivalent_uris(self.converter, uri_in), native=True)
    ensures(conv_state(self.converter) == old(conv_state(self.converter)), native=True)


@lemma("C18.expand_pair_all_are_expansions", props=["C18"])
def l_c18_members(g: MappingServiceGraph, u: str, i: int):
    """Over the contracts of _expand_pair_all, compress and expand_all: what the service offers for a URI are members of
    expand_all(compress(u)); an unrecognised URI gets nothing (no CURIE prefix contains the delimiter)."""
    requires(WF(g.converter))
    requires(all(first_occ(q, g.converter.delimiter) for r in g.converter.records for q in P(r)))
    out = g._expand_pair_all(u)
    c = g.converter.compress(u)
    if c is None:
        assert len(out) == 0
    else:
        alls = g.converter.expand_all(c)
        assert alls is not None
        if 0 <= i and i < len(out):
            assert str(out[i]) in alls


@lemma("C18.triples_dispatch", props=["C18"], bounded_only="generator + rdflib term types; SPARQL evaluation itself is rdflib's (assumed)")
def l_c18_triples(conv: Converter, u: str, pred: str, side: str, predicates: list):
    from rdflib import URIRef, OWL
    requires(WF(conv) and delim_free_names(conv))
    g = MappingServiceGraph(converter=conv, predicates=predicates or None)
    preds = {URIRef(p) for p in predicates} if predicates else {OWL.sameAs}
    eq = [URIRef(x) for x in equivalent_uris(conv, u)]
    q = URIRef(pred)
    if side == "s":
        got = list(g.triples((URIRef(u), q, None)))
        want = [(URIRef(u), p, x) for x in eq for p in preds] if q in preds else []
    elif side == "o":
        got = list(g.triples((None, q, URIRef(u))))
        want = [(x, p, URIRef(u)) for x in eq for p in preds] if q in preds else []
    elif side == "both":
        got = list(g.triples((URIRef(u), q, URIRef(u))))
        want = []
    else:
        got = list(g.triples((None, q, None)))
        want = []
    assert sorted(got) == sorted(want)


@lemma("C18.sparql_end_to_end", props=["C18"], bounded_only="rdflib SPARQL engine, Flask test client (third-party): both VALUES placements, GET and POST, all result formats")
def l_c18_sparql(conv: Converter, u: str, fmt: str):
    import json
    from curies.mapping_service import get_flask_mapping_app
    requires(WF(conv) and delim_free_names(conv))
    requires(all(ch not in u for ch in '<>" {}|\\^`\n\t'))
    app = get_flask_mapping_app(conv)
    want = sorted(equivalent_uris(conv, u))
    q1 = "SELECT ?o WHERE { VALUES ?s { <%s> } ?s owl:sameAs ?o }" % u
    q2 = "SELECT ?o WHERE { ?s owl:sameAs ?o } VALUES ?s { <%s> }" % u
    q3 = "SELECT ?o WHERE { VALUES ?s { <%s> } ?s rdfs:seeAlso ?o }" % u
    with app.test_client() as client:
        for q, expect in ((q1, want), (q2, want), (q3, [])):
            for method in ("get", "post"):
                kw = {"query_string": {"query": q}} if method == "get" else {"data": {"query": q}}
                res = getattr(client, method)("/sparql", headers={"accept": fmt}, **kw)
                assert res.status_code == 200
                assert res.content_type.split(";")[0] == spec_negotiate(fmt, DEFAULT_CONTENT_TYPE)
                if spec_negotiate(fmt, DEFAULT_CONTENT_TYPE) == "application/sparql-results+json":
                    got = sorted(b["o"]["value"] for b in json.loads(res.text)["results"]["bindings"])
                    assert got == expect
