"""Contracts for the pure query functions of curies.api (C01, C02, C03, C06, C07, C08).

Top-level postconditions are taken from the property statements (properties.jsonl), not from the
code. Parameter names are those of the real functions (bound through inspect.signature).
`implies(a, b)` is lazy (rewritten to `(not a) or b` by the loader).
"""
from curies.api import (
    CompressionError,
    Converter,
    CURIEStandardizationError,
    ExpansionError,
    NoCURIEDelimiterError,
    PrefixStandardizationError,
    Record,
    ReferenceTuple,
    URIStandardizationError,
)


# ------------------------------------------------------------------------------------------
@contract("api._split", props=["C02", "C15"])
def c_split(curie: str, sep: str):
    requires(sep != "")
    pure()
    raises(NoCURIEDelimiterError, when=sep not in curie)
    ensures(result[0] + sep + result[1] == curie)
    ensures(first_occ(result[0], sep))
    ensures(result[0] == before(curie, sep) and result[1] == after(curie, sep))


@contract("api.Converter.format_curie", props=["C07"])
def c_format_curie(self: Converter, prefix: str, identifier: str):
    pure()
    ensures(result == prefix + self.delimiter + identifier)


@contract("api.Converter.standardize_identifier", props=["C02"])
def c_standardize_identifier(self: Converter, standard_prefix: str, identifier: str):
    pure()
    ensures(result == identifier)


# ---- URI side (C01) -------------------------------------------------------------------------
@contract("api.Converter.parse_uri", props=["C01", "C03", "C07", "C08"], returns="ReferenceTuple|None")
def c_parse_uri(self: Converter, uri: str, strict: bool, return_none: bool):
    requires(WF(self))
    pure()
    hit = uri_hit(self, uri)
    raises(CompressionError, when=not hit and strict)
    ensures(implies(hit, result is not None and uri_parse_is(self, uri, result[0], result[1])))
    ensures(implies(not hit and return_none, result is None))
    ensures(implies(not hit and not return_none, result == (None, None)))


@contract("api.Converter.compress", props=["C01", "C03", "C07", "C08"], returns="str|None")
def c_compress(self: Converter, uri: str, strict: bool, passthrough: bool):
    requires(WF(self))
    pure()
    hit = uri_hit(self, uri)
    raises(CompressionError, when=not hit and strict)
    ensures(implies(hit, result is not None and any(
        uri.startswith(k) and is_longest(self, uri, k)
        and result == r.prefix + self.delimiter + uri[len(k):]
        for r in self.records for k in U(r))))
    ensures(implies(not hit and passthrough, result == uri))
    ensures(implies(not hit and not passthrough, result is None))


@contract("api.Converter.is_uri", props=["C01", "C07"])
def c_is_uri(self: Converter, s: str):
    requires(WF(self))
    pure()
    ensures(result == uri_hit(self, s))


@contract("api.Converter.compress_strict", props=["C07"])
def c_compress_strict(self: Converter, uri: str):
    requires(WF(self))
    pure()
    hit = uri_hit(self, uri)
    raises(CompressionError, when=not hit)
    ensures(any(
        uri.startswith(k) and is_longest(self, uri, k)
        and result == r.prefix + self.delimiter + uri[len(k):]
        for r in self.records for k in U(r)))


@contract("api.Converter.standardize_uri", props=["C06", "C03", "C08"], returns="str|None")
def c_standardize_uri(self: Converter, uri: str, strict: bool, passthrough: bool):
    requires(WF(self))
    pure()
    hit = uri_hit(self, uri)
    raises(URIStandardizationError, when=not hit and strict)
    ensures(implies(hit, result is not None and any(
        uri.startswith(k) and is_longest(self, uri, k)
        and result == r.uri_prefix + uri[len(k):]
        for r in self.records for k in U(r))))
    ensures(implies(not hit and passthrough, result == uri))
    ensures(implies(not hit and not passthrough, result is None))


# ---- CURIE side (C02) -----------------------------------------------------------------------
@contract("api.Converter.standardize_prefix", props=["C02", "C06", "C08"], returns="str|None")
def c_standardize_prefix(self: Converter, prefix: str, strict: bool, passthrough: bool):
    requires(WF(self))
    pure()
    kn = known(self, prefix)
    raises(PrefixStandardizationError, when=not kn and strict)
    ensures(implies(kn, result is not None and result == owner(self, prefix).prefix))
    ensures(implies(not kn and passthrough, result == prefix))
    ensures(implies(not kn and not passthrough, result is None))


@contract("api.Converter.get_record", props=["C02"], returns="Record|None")
def c_get_record(self: Converter, prefix: str, strict: bool):
    requires(WF(self))
    pure()
    kn = known(self, prefix)
    raises(KeyError, when=not kn and strict)
    ensures(implies(kn, result is not None and result is owner(self, prefix)))
    ensures(implies(not kn, result is None))


@contract("api.Converter.parse_curie", props=["C02", "C07", "C08"], returns="ReferenceTuple|None")
def c_parse_curie(self: Converter, curie: str, strict: bool):
    requires(WF(self))
    pure()
    d = self.delimiter
    has = d in curie
    ok = curie_ok(self, curie)
    raises(NoCURIEDelimiterError, when=not has and strict)
    raises(PrefixStandardizationError, when=has and not ok and strict)
    ensures(implies(ok, result is not None
                    and result[0] == owner(self, before(curie, d)).prefix
                    and result[1] == after(curie, d)))
    ensures(implies(not ok, result is None))


@contract("api.Converter.expand_reference", props=["C02", "C08"], returns="str|None")
def c_expand_reference(self: Converter, reference: ReferenceTuple, strict: bool, passthrough: bool):
    requires(WF(self))
    pure()
    p = reference[0]
    i = reference[1]
    kn = known(self, p)
    raises(ExpansionError, when=not kn and strict)
    ensures(implies(kn, result is not None and result == owner(self, p).uri_prefix + i))
    ensures(implies(not kn and passthrough, result == p + self.delimiter + i))
    ensures(implies(not kn and not passthrough, result is None))


@contract("api.Converter.expand_pair", props=["C02", "C08"], returns="str|None")
def c_expand_pair(self: Converter, prefix: str, identifier: str, strict: bool, passthrough: bool):
    requires(WF(self))
    pure()
    kn = known(self, prefix)
    raises(ExpansionError, when=not kn and strict)
    ensures(implies(kn, result is not None and result == owner(self, prefix).uri_prefix + identifier))
    ensures(implies(not kn and passthrough, result == prefix + self.delimiter + identifier))
    ensures(implies(not kn and not passthrough, result is None))


@contract("api.Converter.expand", props=["C02", "C03", "C07", "C08"], returns="str|None")
def c_expand(self: Converter, curie: str, strict: bool, passthrough: bool):
    requires(WF(self))
    pure()
    d = self.delimiter
    ok = curie_ok(self, curie)
    raises(ExpansionError, when=not ok and strict)
    ensures(implies(ok, result is not None
                    and result == owner(self, before(curie, d)).uri_prefix + after(curie, d)))
    ensures(implies(not ok and passthrough, result == curie))
    ensures(implies(not ok and not passthrough, result is None))


@contract("api.Converter.expand_strict", props=["C07"])
def c_expand_strict(self: Converter, curie: str):
    requires(WF(self))
    pure()
    d = self.delimiter
    ok = curie_ok(self, curie)
    raises(ExpansionError, when=not ok)
    ensures(result == owner(self, before(curie, d)).uri_prefix + after(curie, d))


@contract("api.Converter.expand_pair_all", props=["C02", "C03", "C08"], returns="list[str]|None")
def c_expand_pair_all(self: Converter, prefix: str, identifier: str, strict: bool):
    requires(WF(self))
    pure()
    kn = known(self, prefix)
    raises(ExpansionError, when=not kn and strict)
    ensures(implies(kn, result is not None and result == (
        [owner(self, prefix).uri_prefix + identifier]
        + [s + identifier for s in owner(self, prefix).uri_prefix_synonyms])))
    ensures(implies(not kn, result is None))


@contract("api.Converter.expand_all", props=["C02", "C03", "C08"], returns="list[str]|None")
def c_expand_all(self: Converter, curie: str, strict: bool):
    requires(WF(self))
    pure()
    d = self.delimiter
    ok = curie_ok(self, curie)
    raises(PrefixStandardizationError, when=not ok and strict)
    ensures(implies(ok, result is not None and result == (
        [owner(self, before(curie, d)).uri_prefix + after(curie, d)]
        + [s + after(curie, d) for s in owner(self, before(curie, d)).uri_prefix_synonyms])))
    ensures(implies(not ok, result is None))


@contract("api.Converter.is_curie", props=["C07"])
def c_is_curie(self: Converter, s: str):
    requires(WF(self))
    pure()
    ensures(result == curie_ok(self, s))


@contract("api.Converter.standardize_curie", props=["C06", "C08"], returns="str|None")
def c_standardize_curie(self: Converter, curie: str, strict: bool, passthrough: bool):
    requires(WF(self))
    pure()
    d = self.delimiter
    ok = curie_ok(self, curie)
    raises(CURIEStandardizationError, when=not ok and strict)
    ensures(implies(ok, result is not None
                    and result == owner(self, before(curie, d)).prefix + d + after(curie, d)))
    ensures(implies(not ok and passthrough, result == curie))
    ensures(implies(not ok and not passthrough, result is None))


# ---- ambiguous input (C07) -------------------------------------------------------------------
@contract("api.Converter.parse", props=["C07", "C08"], returns="ReferenceTuple|None")
def c_parse(self: Converter, uri_or_curie: str, strict: bool):
    requires(WF(self))
    pure()
    s = uri_or_curie
    d = self.delimiter
    hit = uri_hit(self, s)
    ok = curie_ok(self, s)
    raises(CompressionError, when=not hit and not ok and strict)
    ensures(implies(hit, result is not None and uri_parse_is(self, s, result[0], result[1])))
    ensures(implies(not hit and ok, result is not None
                    and result[0] == owner(self, before(s, d)).prefix and result[1] == after(s, d)))
    ensures(implies(not hit and not ok, result is None))


@contract("api.Converter.compress_or_standardize", props=["C07", "C08"], returns="str|None")
def c_compress_or_standardize(self: Converter, uri_or_curie: str, strict: bool, passthrough: bool):
    requires(WF(self))
    pure()
    s = uri_or_curie
    d = self.delimiter
    hit = uri_hit(self, s)
    ok = curie_ok(self, s)
    raises(CompressionError, when=not hit and not ok and strict)
    ensures(implies(hit, result is not None and any(
        s.startswith(k) and is_longest(self, s, k) and result == r.prefix + d + s[len(k):]
        for r in self.records for k in U(r))))
    ensures(implies(not hit and ok, result is not None
                    and result == owner(self, before(s, d)).prefix + d + after(s, d)))
    ensures(implies(not hit and not ok and passthrough, result == s))
    ensures(implies(not hit and not ok and not passthrough, result is None))


@contract("api.Converter.expand_or_standardize", props=["C07", "C08"], returns="str|None")
def c_expand_or_standardize(self: Converter, curie_or_uri: str, strict: bool, passthrough: bool):
    requires(WF(self))
    pure()
    s = curie_or_uri
    d = self.delimiter
    hit = uri_hit(self, s)
    ok = curie_ok(self, s)
    raises(ExpansionError, when=not hit and not ok and strict)
    ensures(implies(hit, result is not None and any(
        s.startswith(k) and is_longest(self, s, k) and result == r.uri_prefix + s[len(k):]
        for r in self.records for k in U(r))))
    ensures(implies(not hit and ok, result is not None
                    and result == owner(self, before(s, d)).uri_prefix + after(s, d)))
    ensures(implies(not hit and not ok and passthrough, result == s))
    ensures(implies(not hit and not ok and not passthrough, result is None))


# ---- loop invariants (checked: established, preserved, used at exit) -------------------------
@invariant("api.Converter.get_record", loop=0)
def inv_get_record(self, prefix, _i, _xs):
    return all(prefix not in P(r) for r in _xs[:_i])


@invariant("api.Converter.expand_pair_all", loop=0)
def inv_expand_pair_all(record, identifier, rv, _i, _xs):
    return (len(rv) == 1 + _i and rv[0] == record.uri_prefix + identifier
            and all(rv[1 + j] == _xs[j] + identifier for j in range(_i)))
