"""Lemmas over the contracts of the query functions (C01, C03, C06, C07).

A lemma is a ghost Python function over the real public API. The symbolic engine executes its body
using only the callees' *contracts*; natively it runs against the real code (bounded stand-in /
replay).  `requires` restricts the inputs, `assert` states the claim.
"""
from curies.api import CompressionError, Converter, ExpansionError


# ---- C01: the answer is a function of the set-level view, not of record order ------------------
@lemma("C01.order_independent", props=["C01"])
def l_c01_order(c1: Converter, c2: Converter, u: str):
    requires(WF(c1) and WF(c2) and same_names(c1, c2))
    assert uri_hit(c1, u) == uri_hit(c2, u)
    a = c1.parse_uri(u, return_none=True)
    b = c2.parse_uri(u, return_none=True)
    assert (a is None) == (b is None)
    if a is not None:
        # stepping stones: each matched key is registered in the other converter too, hence not longer than the other's longest
        assert len(a[1]) <= len(b[1])
        assert len(b[1]) <= len(a[1])
        assert a[1] == b[1]
        assert a[0] == b[0]
    assert a == b
    assert c1.is_uri(u) == c2.is_uri(u)
    x = c1.compress(u)
    y = c2.compress(u)
    assert (x is None) == (y is None)
    if a is not None:
        assert x == c1.format_curie(a[0], a[1])
        assert y == c2.format_curie(b[0], b[1])
    assert x == y


# ---- C03 ---------------------------------------------------------------------------------------
@lemma("C03.lossless", props=["C03"])
def l_c03_lossless(conv: Converter, u: str):
    requires(WF(conv) and delim_free_names(conv))
    c = conv.compress(u)
    if c is not None:
        xs = conv.expand_all(c)
        assert xs is not None
        assert u in xs
        assert conv.expand(c) is not None
        assert conv.expand(c) == conv.standardize_uri(u)


@lemma("C03.canonical_is_fixed", props=["C03"])
def l_c03_canonical(conv: Converter, u: str):
    """u written with a canonical URI prefix that is its longest match: expand(compress(u)) == u."""
    requires(WF(conv) and delim_free_names(conv))
    requires(any(u.startswith(r.uri_prefix) and is_longest(conv, u, r.uri_prefix) for r in conv.records))
    c = conv.compress(u)
    assert c is not None
    assert conv.expand(c) == u


@lemma("C03.expand_compressible", props=["C03"])
def l_c03_expand_compressible(conv: Converter, c: str):
    requires(WF(conv))
    x = conv.expand(c)
    if x is not None:
        assert conv.is_uri(x)
        assert conv.compress(x) is not None


@lemma("C03.inverse_on_prefix_free", props=["C03"])
def l_c03_inverse(conv: Converter, c: str, u: str):
    requires(WF(conv) and delim_free_names(conv) and prefix_free(conv))
    x = conv.expand(c)
    if x is not None:
        assert conv.compress(x) == conv.standardize_curie(c)
    c2 = conv.compress(u)
    if c2 is not None:
        assert conv.expand(c2) == conv.standardize_uri(u)
        assert conv.compress(conv.expand(c2)) == c2


# ---- C06 ---------------------------------------------------------------------------------------
@lemma("C06.prefix_idempotent", props=["C06"])
def l_c06_prefix(conv: Converter, p: str):
    requires(WF(conv))
    p1 = conv.standardize_prefix(p)
    assert (p1 is not None) == known(conv, p)
    if p1 is not None:
        assert conv.standardize_prefix(p1) == p1
        assert any(r.prefix == p1 and p in P(r) for r in conv.records)


@lemma("C06.curie_idempotent_meaning", props=["C06"])
def l_c06_curie(conv: Converter, c: str):
    requires(WF(conv) and delim_free_names(conv))
    c1 = conv.standardize_curie(c)
    if c1 is not None:
        assert conv.standardize_curie(c1) == c1
        assert conv.expand(c1) == conv.expand(c)
        assert after(c1, conv.delimiter) == after(c, conv.delimiter)


@lemma("C06.uri_idempotent_on_prefix_free", props=["C06"])
def l_c06_uri(conv: Converter, u: str):
    requires(WF(conv) and prefix_free(conv))
    u1 = conv.standardize_uri(u)
    if u1 is not None:
        assert conv.standardize_uri(u1) == u1
        assert conv.compress(u1) == conv.compress(u)


# ---- C07 ---------------------------------------------------------------------------------------
@lemma("C07.uri_agreement", props=["C07"])
def l_c07_uri(conv: Converter, s: str):
    requires(WF(conv))
    assert conv.is_uri(s) == (conv.compress(s) is not None)
    assert conv.is_uri(s) == (conv.parse_uri(s, return_none=True) is not None)


@lemma("C07.curie_agreement", props=["C07"])
def l_c07_curie(conv: Converter, s: str):
    requires(WF(conv))
    assert conv.is_curie(s) == (conv.expand(s) is not None)
    assert conv.is_curie(s) == (conv.delimiter in s and known(conv, before(s, conv.delimiter)))


@lemma("C07.parse_precedence", props=["C07"])
def l_c07_parse(conv: Converter, s: str):
    requires(WF(conv))
    r = conv.parse(s, strict=False)
    if conv.is_uri(s):
        assert r == conv.parse_uri(s, return_none=True)
    elif conv.is_curie(s):
        assert r == conv.parse_curie(s)
    else:
        assert r is None


@lemma("C07.or_standardize", props=["C07"])
def l_c07_or_std(conv: Converter, s: str):
    requires(WF(conv))
    r = conv.parse(s, strict=False)
    a = conv.compress_or_standardize(s)
    b = conv.expand_or_standardize(s)
    if r is None:
        assert a is None and b is None
    else:
        assert a == conv.format_curie(r[0], r[1])
        assert b == conv.expand_pair(r[0], r[1])


@lemma("C07.strict_aliases", props=["C07"])
def l_c07_strict(conv: Converter, s: str):
    requires(WF(conv))
    if conv.is_uri(s):
        assert conv.compress_strict(s) == conv.compress(s, strict=True)
    if conv.is_curie(s):
        assert conv.expand_strict(s) == conv.expand(s, strict=True)
