"""Contracts for curies.reconciliation (C10, C11, C12)."""
from curies.api import Converter, Record
from curies.reconciliation import (
    CycleDetected,
    DuplicateKeys,
    DuplicateValues,
    InconsistentMapping,
    TransitiveError,
    remap_curie_prefixes,
    remap_uri_prefixes,
    rewire,
)


def uri_side(c):
    """The URI side of every record, as a sorted list (independent of record order and names)."""
    return sorted((r.uri_prefix, sorted(r.uri_prefix_synonyms)) for r in c.records)


def mapped_uri(r, m):
    """The new URI prefix a record is asked to take: keyed by its canonical URI prefix, else its first synonym that is a key."""
    return m[r.uri_prefix] if r.uri_prefix in m else next((m[s] for s in r.uri_prefix_synonyms if s in m), None)


def mapped_curie(r, m):
    return m[r.prefix] if r.prefix in m else next((m[s] for s in r.prefix_synonyms if s in m), None)


def upgraded_ok(c, r, q, new):
    """q is what r must become when asked to take URI prefix `new` (C12)."""
    return (
        P(q) == P(r) and q.prefix == r.prefix and sorted(q.prefix_synonyms) == sorted(r.prefix_synonyms) and q.pattern == r.pattern
        and (
            (rec_state(q) == rec_state(r))
            if (new is None or (new in c.reverse_prefix_map and new not in r.uri_prefix_synonyms))
            else (q.uri_prefix == new and U(q) == (U(r) | {new}) and RecInv(q))
        )
    )


@contract("reconciliation._order_curie_remapping", props=["C11"], returns="list[tuple[str,str]]")
def c_order_curie_remapping(converter: Converter, curie_remapping: dict[str, str]):
    requires(WF(converter))
    pure()
    may_raise((DuplicateKeys, DuplicateValues, InconsistentMapping, CycleDetected))
    ensures(len(result) == len(curie_remapping) and all(k in curie_remapping and curie_remapping[k] == v for k, v in result)
            and all(any(k == k2 for k2, _ in result) for k in curie_remapping))
    # a pair whose target is itself a key comes after the pair that moves that key away
    ensures(all(j < i for i, (k, v) in enumerate(result) for j, (k2, v2) in enumerate(result) if k2 == v))
    # no two keys denote the same record
    ensures(all(k1 == k2 or not (known(converter, k1) and known(converter, k2)) or owner(converter, k1) is not owner(converter, k2)
                for k1 in curie_remapping for k2 in curie_remapping))


@contract("reconciliation.remap_curie_prefixes", props=["C11", "C10"], returns="Converter")
def c_remap_curie_prefixes(converter: Converter, remapping: dict[str, str]):
    requires(WF(converter))
    may_raise((DuplicateKeys, DuplicateValues, InconsistentMapping, CycleDetected))
    ensures(WF(result))
    ensures(len(result.records) == len(converter.records))
    # every record keeps exactly its URI prefixes and canonical URI prefix
    ensures(uri_side(result) == old(uri_side(converter)))
    # every URI still compresses to the same identifier
    ensures(all(result.parse_uri(u + "1", return_none=True) is not None
                and result.parse_uri(u + "1", return_none=True)[1] == converter.parse_uri(u + "1", return_none=True)[1]
                for r in converter.records for u in U(r)))
    # every CURIE prefix known before is still known afterwards
    ensures(all(known(result, p) for r in converter.records for p in P(r)))
    # an applicable pair whose new prefix was unused renames old's record
    ensures(all(any(q.prefix == new and q.uri_prefix == owner(converter, o).uri_prefix for q in result.records)
                for o, new in remapping.items()
                if known(converter, o) and not known(converter, new) and new not in remapping
                and len([1 for v in remapping.values() if v == new]) == 1))
    # a pair whose new prefix belongs to another record (none of whose names is remapped) is skipped
    ensures(all(any(q.prefix == owner(converter, o).prefix and q.uri_prefix == owner(converter, o).uri_prefix for q in result.records)
                for o, new in remapping.items()
                if known(converter, o) and known(converter, new) and owner(converter, new) is not owner(converter, o)
                and not any(k in P(owner(converter, new)) for k in remapping)
                and len([1 for k in remapping if known(converter, k) and owner(converter, k) is owner(converter, o)]) == 1))
    # a remapping none of whose keys is known changes nothing
    ensures(implies(not any(known(converter, k) for k in remapping),
                    sorted(rec_state(r) for r in result.records) == old(sorted(rec_state(r) for r in converter.records))))
    # C10
    ensures(conv_state(converter) == old(conv_state(converter)))
    ensures(all(q is not r for q in result.records for r in converter.records))


@contract("reconciliation._get_uri_preferred_or_synonym", props=["C12"], returns="str|None")
def c_get_uri_preferred_or_synonym(record: Record, upgrades: dict[str, str]):
    pure()
    ensures(result == mapped_uri(record, upgrades))


@contract("reconciliation._get_curie_preferred_or_synonym", props=["C12"], returns="str|None")
def c_get_curie_preferred_or_synonym(record: Record, upgrades: dict[str, str]):
    pure()
    ensures(result == mapped_curie(record, upgrades))


@contract("reconciliation.remap_uri_prefixes", props=["C12", "C10"], returns="Converter")
def c_remap_uri_prefixes(converter: Converter, remapping: dict[str, str]):
    requires(WF(converter))
    requires(len(set(remapping.values())) == len(remapping))          # injective
    raises(TransitiveError, when=any(k in remapping.values() for k in remapping))
    ensures(WF(result) and len(result.records) == len(converter.records))
    ensures(all(result.get_record(r.prefix) is not None
                and upgraded_ok(converter, r, result.get_record(r.prefix), mapped_uri(r, remapping))
                for r in converter.records))
    ensures(conv_state(converter) == old(conv_state(converter)))
    ensures(all(q is not r for q in result.records for r in converter.records))


@contract("reconciliation.rewire", props=["C12", "C10"], returns="Converter")
def c_rewire(converter: Converter, rewiring: dict[str, str]):
    requires(WF(converter))
    requires(len(set(rewiring.values())) == len(rewiring))            # injective
    requires(len({owner(converter, k).prefix for k in rewiring if known(converter, k)}) == len([k for k in rewiring if known(converter, k)]))
    ensures(WF(result) and len(result.records) == len(converter.records))
    ensures(all(result.get_record(r.prefix) is not None
                and upgraded_ok(converter, r, result.get_record(r.prefix), mapped_curie(r, rewiring))
                for r in converter.records))
    ensures(conv_state(converter) == old(conv_state(converter)))
    ensures(all(q is not r for q in result.records for r in converter.records))


@lemma("C12.rewire_idempotent", props=["C12"], bounded_only="two-call composition compared on whole-converter state; per-call behaviour is the contract of rewire")
def l_c12_idempotent(conv: Converter, rewiring: dict):
    requires(WF(conv))
    requires(len(set(rewiring.values())) == len(rewiring))
    requires(len({owner(conv, k).prefix for k in rewiring if known(conv, k)}) == len([k for k in rewiring if known(conv, k)]))
    once = rewire(conv, rewiring)
    twice = rewire(once, rewiring)
    assert sorted(rec_state(r) for r in once.records) == sorted(rec_state(r) for r in twice.records)


@lemma("C12.rewire_unknown_adds_nothing", props=["C12"], bounded_only="whole-converter state comparison")
def l_c12_unknown(conv: Converter, rewiring: dict):
    requires(WF(conv))
    requires(not any(known(conv, k) for k in rewiring))
    out = rewire(conv, rewiring)
    assert sorted(rec_state(r) for r in out.records) == sorted(rec_state(r) for r in conv.records)


@lemma("C10.reconciliation_does_not_leak", props=["C10"], bounded_only="two-step history (derive, then mutate the derived converter)")
def l_c10_recon(conv: Converter, cmap: dict, umap: dict, extra: tuple):
    requires(WF(conv))
    before_state = conv_state(conv)
    outs = []
    try:
        outs.append(remap_curie_prefixes(conv, cmap))
    except ValueError:
        pass
    assert conv_state(conv) == before_state
    try:
        outs.append(remap_uri_prefixes(conv, umap))
    except (NotImplementedError, ValueError):
        pass
    assert conv_state(conv) == before_state
    try:
        outs.append(rewire(conv, cmap))
    except ValueError:
        pass
    assert conv_state(conv) == before_state
    for d in outs:
        try:
            d.add_prefix(extra[0], extra[1], list(extra[2]), list(extra[3]), merge=True)
        except ValueError:
            pass
        assert conv_state(conv) == before_state


@invariant("reconciliation._get_uri_preferred_or_synonym", loop=0)
def inv_uri_pref(upgrades, _i, _xs):
    return all(s not in upgrades for s in _xs[:_i])


@invariant("reconciliation._get_curie_preferred_or_synonym", loop=0)
def inv_curie_pref(upgrades, _i, _xs):
    return all(s not in upgrades for s in _xs[:_i])
