"""Contracts for curies.reconciliation (C10, C11, C12)."""
from curies.api import Converter, Record
from curies.reconciliation import (
    CycleDetected,
    DuplicateKeys,
    DuplicateValues,
    InconsistentMapping,
    TransitiveError,
    remap_curie_prefixes,
    remap_uri_prefixes,
    rewire,
)


def uri_side(c):
    """The URI side of every record, as a sorted list (independent of record order and names)."""
    return sorted((r.uri_prefix, sorted(r.uri_prefix_synonyms)) for r in c.records)


def mapped_uri(r, m):
    """The new URI prefix a record is asked to take: keyed by its canonical URI prefix, else its first synonym that is a key."""
    return m[r.uri_prefix] if r.uri_prefix in m else next((m[s] for s in r.uri_prefix_synonyms if s in m), None)


def mapped_curie(r, m):
    return m[r.prefix] if r.prefix in m else next((m[s] for s in r.prefix_synonyms if s in m), None)


def upgraded_ok(c, r, q, new):
    """q is what r must become when asked to take URI prefix `new` (C12)."""
    return (
        P(q) == P(r) and q.prefix == r.prefix and sorted(q.prefix_synonyms) == sorted(r.prefix_synonyms) and q.pattern == r.pattern
        and (
            (rec_state(q) == rec_state(r))
            if (new is None or (new in c.reverse_prefix_map and new not in r.uri_prefix_synonyms))
            else (q.uri_prefix == new and U(q) == (U(r) | {new}) and RecInv(q))
        )
    )


@contract("reconciliation._order_curie_remapping", props=["C11"], returns="list[tuple[str,str]]")
def c_order_curie_remapping(converter: Converter, curie_remapping: dict[str, str]):
    requires(WF(converter))
    pure()
    may_raise((DuplicateKeys, DuplicateValues, InconsistentMapping, CycleDetected))
    ensures(len(result) == len(curie_remapping) and all(k in curie_remapping and curie_remapping[k] == v for k, v in result)
            and all(any(k == k2 for k2, _ in result) for k in curie_remapping))
    # a pair whose target is itself a key comes after the pair that moves that key away
    ensures(all(j < i for i, (k, v) in enumerate(result) for j, (k2, v2) in enumerate(result) if k2 == v))
    # no two keys denote the same record
    ensures(all(k1 == k2 or not (known(converter, k1) and known(converter, k2)) or owner(converter, k1) is not owner(converter, k2)
                for k1 in curie_remapping for k2 in curie_remapping))


@contract("reconciliation.remap_curie_prefixes", props=["C11", "C10"], returns="Converter")
def c_remap_curie_prefixes(converter: Converter, remapping: dict[str, str]):
    requires(WF(converter))
    may_raise((DuplicateKeys, DuplicateValues, InconsistentMapping, CycleDetected))
    ensures(WF(result))
    ensures(len(result.records) == len(converter.records))
    # every record keeps exactly its URI prefixes and canonical URI prefix
    ensures(uri_side(result) == old(uri_side(converter)))
    # every URI still compresses to the same identifier
    ensures(all(result.parse_uri(u + "1", return_none=True) is not None
                and result.parse_uri(u + "1", return_none=True)[1] == converter.parse_uri(u + "1", return_none=True)[1]
                for r in converter.records for u in U(r)))
    # every CURIE prefix known before is still known afterwards
    ensures(all(known(result, p) for r in converter.records for p in P(r)))
    # an applicable pair whose new prefix was unused renames old's record
    ensures(all(any(q.prefix == new and q.uri_prefix == owner(converter, o).uri_prefix for q in result.records)
                for o, new in remapping.items()
                if known(converter, o) and not known(converter, new) and new not in remapping
                and len([1 for v in remapping.values() if v == new]) == 1))
    # a pair whose new prefix belongs to another record (none of whose names is remapped) is skipped
    ensures(all(any(q.prefix == owner(converter, o).prefix and q.uri_prefix == owner(converter, o).uri_prefix for q in result.records)
                for o, new in remapping.items()
                if known(converter, o) and known(converter, new) and owner(converter, new) is not owner(converter, o)
                and not any(k in P(owner(converter, new)) for k in remapping)
                and len([1 for k in remapping if known(converter, k) and owner(converter, k) is owner(converter, o)]) == 1))
    # a remapping none of whose keys is known changes nothing
    ensures(implies(not any(known(converter, k) for k in remapping),
                    sorted(rec_state(r) for r in result.records) == old(sorted(rec_state(r) for r in converter.records))))
    # C10
    ensures(conv_state(converter) == old(conv_state(converter)))
    ensures(all(q is not r for q in result.records for r in converter.records))


@contract("reconciliation._get_uri_preferred_or_synonym", props=["C12"], returns="str|None")
def c_get_uri_preferred_or_synonym(record: Record, upgrades: dict[str, str]):
    pure()
    ensures(result == mapped_uri(record, upgrades))
    # the same, relationally (what callers reason with)
    ensures((result is None) == (not any(s in upgrades for s in U(record))))
    ensures(implies(result is not None, any(s in upgrades and upgrades[s] == result for s in U(record))))


@contract("reconciliation._get_curie_preferred_or_synonym", props=["C12"], returns="str|None")
def c_get_curie_preferred_or_synonym(record: Record, upgrades: dict[str, str]):
    pure()
    ensures(result == mapped_curie(record, upgrades))
    ensures((result is None) == (not any(s in upgrades for s in P(record))))
    ensures(implies(result is not None, any(s in upgrades and upgrades[s] == result for s in P(record))))


def injective(m):
    return all(k1 == k2 or m[k1] != m[k2] for k1 in m for k2 in m)


def upgraded(c, r, q, new):
    """q is what r becomes when asked to take URI prefix `new` (None: not asked) — C12, stated without sorting."""
    return (
        q.prefix == r.prefix and P(q) == P(r) and q.pattern == r.pattern and RecInv(q)
        and ((q.uri_prefix == r.uri_prefix and U(q) == U(r))
             if (new is None or (new in c.reverse_prefix_map and new not in r.uri_prefix_synonyms))
             else (q.uri_prefix == new and U(q) == (U(r) | {new})))
    )


def upgraded_vals(rpm, r_prefix, r_uri, r_pattern, r_P, r_U, r_usyn, q, m, keys=None):
    """q is a record (prefix r_prefix, ...) re-pointed by a mapping keyed on one of its own URI prefixes (which key is
    the helper's business): CURIE side untouched; either nothing changed, or the mapped value became canonical and
    every old URI prefix was kept. The old record is given by value so that it can be read in another state than q."""
    return (
        q.prefix == r_prefix and P(q) == r_P and q.pattern == r_pattern and RecInv(q)
        and ((q.uri_prefix == r_uri and U(q) == r_U)
             or any(s in m and q.uri_prefix == m[s] and U(q) == (r_U | {m[s]})
                    and not (m[s] in rpm and m[s] not in r_usyn) for s in (r_U if keys is None else keys)))
        and (any(s in m for s in (r_U if keys is None else keys)) or (q.uri_prefix == r_uri and U(q) == r_U))
    )


def upgraded_by_some_key(c, r, q, m):
    return upgraded_vals(c.reverse_prefix_map, r.prefix, r.uri_prefix, r.pattern, P(r), U(r), r.uri_prefix_synonyms, q, m)


@contract("reconciliation.remap_uri_prefixes", props=["C12", "C10"], returns="Converter")
def c_remap_uri_prefixes(converter: Converter, remapping: dict[str, str]):
    requires(WF(converter))
    requires(injective(remapping))
    raises(TransitiveError, when=any(k in remapping.values() for k in remapping))
    ensures(WF(result) and len(result.records) == len(converter.records))
    ensures(all(any(upgraded_by_some_key(converter, r, q, remapping) for q in result.records) for r in converter.records))
    ensures(all(any(upgraded(converter, r, q, mapped_uri(r, remapping)) for q in result.records) for r in converter.records), native=True)
    ensures(all(result.get_record(r.prefix) is not None
                and upgraded_ok(converter, r, result.get_record(r.prefix), mapped_uri(r, remapping))
                for r in converter.records), native=True)
    ensures(_fresh(result) and all(_fresh(q) for q in result.records), symbolic=True)
    ensures(conv_state(converter) == old(conv_state(converter)), native=True)
    ensures(all(q is not r for q in result.records for r in converter.records), native=True)


@invariant("reconciliation.remap_uri_prefixes", loop=0)
def inv_remap_uri(converter, remapping, records: list[Record], _i, _xs, _pre):
    return (_frame() and _xs == _pre(converter.records) and len(records) == _i
            and all(_fresh(records[k]) and _alloc(records[k]) for k in range(_i))
            and all(records[k] is not records[k2] for k in range(_i) for k2 in range(_i) if k != k2)
            and all(upgraded_vals(_pre(converter.reverse_prefix_map), _pre(_xs[k].prefix), _pre(_xs[k].uri_prefix), _pre(_xs[k].pattern),
                                  _pre(P(_xs[k])), _pre(U(_xs[k])), _pre(_xs[k].uri_prefix_synonyms), records[k], remapping) for k in range(_i)))


def one_key_per_record(c, m):
    return all(k1 == k2 or not (known(c, k1) and known(c, k2)) or owner(c, k1) is not owner(c, k2) for k1 in m for k2 in m)


@contract("reconciliation.rewire", props=["C12", "C10"], returns="Converter",
          partial="182 of 183 obligations discharge; open: preservation of the per-record upgrade clause on the path that re-points a record (no back end decides it within 120 s)")
def c_rewire(converter: Converter, rewiring: dict[str, str]):
    requires(WF(converter))
    requires(injective(rewiring))
    requires(one_key_per_record(converter, rewiring))
    ensures(WF(result) and len(result.records) == len(converter.records))
    ensures(all(any(upgraded_vals(converter.reverse_prefix_map, r.prefix, r.uri_prefix, r.pattern, P(r), U(r), r.uri_prefix_synonyms, q, rewiring, P(r))
                    for q in result.records) for r in converter.records))
    ensures(all(result.get_record(r.prefix) is not None
                and upgraded_ok(converter, r, result.get_record(r.prefix), mapped_curie(r, rewiring))
                for r in converter.records), native=True)
    ensures(_fresh(result) and all(_fresh(q) for q in result.records), symbolic=True)
    ensures(conv_state(converter) == old(conv_state(converter)), native=True)
    ensures(all(q is not r for q in result.records for r in converter.records), native=True)


@invariant("reconciliation.rewire", loop=0)
def inv_rewire(converter, rewiring, records: list[Record], _i, _xs, _pre):
    return (_frame() and _xs == _pre(converter.records) and len(records) == _i
            and all(_fresh(records[k]) and _alloc(records[k]) for k in range(_i))
            and all(records[k] is not records[k2] for k in range(_i) for k2 in range(_i) if k != k2)
            and all(upgraded_vals(_pre(converter.reverse_prefix_map), _pre(_xs[k].prefix), _pre(_xs[k].uri_prefix), _pre(_xs[k].pattern),
                                  _pre(P(_xs[k])), _pre(U(_xs[k])), _pre(_xs[k].uri_prefix_synonyms), records[k], rewiring, _pre(P(_xs[k]))) for k in range(_i)))


@lemma("C12.remap_uri_keeps_every_uri", props=["C12"])
def l_c12_remap_keeps(conv: Converter, remapping: dict[str, str], u: str):
    """Over the contracts of remap_uri_prefixes and is_uri: every record keeps all URI prefixes it had, so every URI the
    converter recognised is still recognised afterwards."""
    requires(WF(conv) and injective(remapping))
    requires(not any(k in remapping.values() for k in remapping))
    was = conv.is_uri(u)
    out = remap_uri_prefixes(conv, remapping)
    assert len(out.records) == len(conv.records)
    if was:
        assert out.is_uri(u)


@lemma("C12.remap_uri_keeps_curie_prefixes", props=["C12"])
def l_c12_remap_names(conv: Converter, remapping: dict[str, str], p: str):
    """... and every CURIE prefix or synonym it knew is still known (the converse — nothing is invented — needs a counting
    argument over `len(result.records) == len(converter.records)` and is left to the bounded stand-in of the contract)."""
    requires(WF(conv) and injective(remapping))
    requires(not any(k in remapping.values() for k in remapping))
    was = known(conv, p)
    out = remap_uri_prefixes(conv, remapping)
    if was:
        assert known(out, p)


@lemma("C12.rewire_keeps_every_uri_and_name", props=["C12"])
def l_c12_rewire_keeps(conv: Converter, rewiring: dict[str, str], u: str, p: str):
    """The same two statements over the contract of rewire."""
    requires(WF(conv) and injective(rewiring) and one_key_per_record(conv, rewiring))
    was_uri = conv.is_uri(u)
    was_known = known(conv, p)
    out = rewire(conv, rewiring)
    assert len(out.records) == len(conv.records)
    if was_uri:
        assert out.is_uri(u)
    if was_known:
        assert known(out, p)


@lemma("C12.rewire_idempotent", props=["C12"], bounded_only="two-call composition compared on whole-converter state; per-call behaviour is the contract of rewire")
def l_c12_idempotent(conv: Converter, rewiring: dict):
    requires(WF(conv))
    requires(len(set(rewiring.values())) == len(rewiring))
    requires(len({owner(conv, k).prefix for k in rewiring if known(conv, k)}) == len([k for k in rewiring if known(conv, k)]))
    once = rewire(conv, rewiring)
    twice = rewire(once, rewiring)
    assert sorted(rec_state(r) for r in once.records) == sorted(rec_state(r) for r in twice.records)


@lemma("C12.rewire_unknown_adds_nothing", props=["C12"], bounded_only="whole-converter state comparison")
def l_c12_unknown(conv: Converter, rewiring: dict):
    requires(WF(conv))
    requires(not any(known(conv, k) for k in rewiring))
    out = rewire(conv, rewiring)
    assert sorted(rec_state(r) for r in out.records) == sorted(rec_state(r) for r in conv.records)


@lemma("C10.reconciliation_does_not_leak", props=["C10"], bounded_only="two-step history (derive, then mutate the derived converter)")
def l_c10_recon(conv: Converter, cmap: dict, umap: dict, extra: tuple):
    requires(WF(conv))
    before_state = conv_state(conv)
    outs = []
    try:
        outs.append(remap_curie_prefixes(conv, cmap))
    except ValueError:
        pass
    assert conv_state(conv) == before_state
    try:
        outs.append(remap_uri_prefixes(conv, umap))
    except (NotImplementedError, ValueError):
        pass
    assert conv_state(conv) == before_state
    try:
        outs.append(rewire(conv, cmap))
    except ValueError:
        pass
    assert conv_state(conv) == before_state
    for d in outs:
        try:
            d.add_prefix(extra[0], extra[1], list(extra[2]), list(extra[3]), merge=True)
        except ValueError:
            pass
        assert conv_state(conv) == before_state


@invariant("reconciliation._get_uri_preferred_or_synonym", loop=0)
def inv_uri_pref(upgrades, _i, _xs):
    return all(s not in upgrades for s in _xs[:_i])


@invariant("reconciliation._get_curie_preferred_or_synonym", loop=0)
def inv_curie_pref(upgrades, _i, _xs):
    return all(s not in upgrades for s in _xs[:_i])
