"""Contracts for construction, incremental mutation and derivation in curies.api (C04, C05, C09, C10)."""
from curies.api import (
    Converter,
    DuplicatePrefixes,
    DuplicateURIPrefixes,
    Record,
    chain,
)


# ---- spec helpers ----------------------------------------------------------------------------
def clashU(records):
    """Two records at different positions claim the same URI prefix (canonical or synonym)."""
    return any(not U(a).isdisjoint(U(b)) for i, a in enumerate(records) for j, b in enumerate(records) if i != j)


def clashP(records):
    return any(not P(a).isdisjoint(P(b)) for i, a in enumerate(records) for j, b in enumerate(records) if i != j)


def same_members(xs, ys):
    """xs and ys hold the same record objects (by identity) and have equal length."""
    return (len(xs) == len(ys)
            and all(any(x is y for y in ys) for x in xs)
            and all(any(x is y for x in xs) for y in ys))


def sorted_by_prefix(xs):
    return all(xs[i].prefix <= xs[i + 1].prefix for i in range(len(xs) - 1))


def eqcs(a, b, cs):
    return a == b if cs else a.casefold() == b.casefold()


def matches(x, r, cs):
    """Some CURIE-side name of x equals (up to case if not cs) some CURIE-side name of r, or the same on the URI side."""
    return (any(eqcs(a, b, cs) for a in P(x) for b in P(r))
            or any(eqcs(a, b, cs) for a in U(x) for b in U(r)))


def rec_state(r):
    """The observable state of a record (value snapshot)."""
    return (r.prefix, r.uri_prefix, list(r.prefix_synonyms), list(r.uri_prefix_synonyms), r.pattern)


def conv_state(c):
    """Observable state of a converter: records (values, in order), delimiter and the five lookup structures."""
    return (c.delimiter, [rec_state(r) for r in c.records], dict(c.prefix_map), dict(c.synonym_to_prefix),
            dict(c.reverse_prefix_map), dict(c.trie.items()), dict(c.pattern_map))


def fresh_equiv(c):
    """c answers as a converter freshly built from its current records (same lookup structures)."""
    return conv_state(Converter([r.model_copy(deep=True) for r in c.records], delimiter=c.delimiter))[2:] == conv_state(c)[2:]


# ---- C04: strict construction ----------------------------------------------------------------
@contract("api._get_duplicate_uri_prefixes", props=["C04"], returns="list[DuplicateSummary]")
def c_get_duplicate_uri_prefixes(records: list[Record]):
    pure()
    ensures((len(result) > 0) == clashU(records))
    ensures(all(any(d[0] is a and d[1] is b for i, a in enumerate(records) for j, b in enumerate(records) if i < j) for d in result))
    ensures(all(d[2] in U(d[0]) and d[2] in U(d[1]) for d in result))
    ensures(all(any(d[0] is a and d[1] is b and d[2] == u for d in result)
                for i, a in enumerate(records) for j, b in enumerate(records) if i < j
                for u in U(a) if u in U(b)))


@contract("api._get_duplicate_prefixes", props=["C04"], returns="list[DuplicateSummary]")
def c_get_duplicate_prefixes(records: list[Record]):
    pure()
    ensures((len(result) > 0) == clashP(records))
    ensures(all(any(d[0] is a and d[1] is b for i, a in enumerate(records) for j, b in enumerate(records) if i < j) for d in result))
    ensures(all(d[2] in P(d[0]) and d[2] in P(d[1]) for d in result))
    ensures(all(any(d[0] is a and d[1] is b and d[2] == p for d in result)
                for i, a in enumerate(records) for j, b in enumerate(records) if i < j
                for p in P(a) if p in P(b)))


@contract("api._get_prefix_map", props=["C04", "C02"], returns="dict[str,str]")
def c_get_prefix_map(records: list[Record]):
    pure()
    ensures(all(any(p in P(r) for r in records) for p in result))
    ensures(all(p in result for r in records for p in P(r)))
    ensures(implies(not clashP(records), all(result[p] == r.uri_prefix for r in records for p in P(r))))


@contract("api._get_prefix_synmap", props=["C04", "C02"], returns="dict[str,str]")
def c_get_prefix_synmap(records: list[Record]):
    pure()
    ensures(all(any(p in P(r) for r in records) for p in result))
    ensures(all(p in result for r in records for p in P(r)))
    ensures(implies(not clashP(records), all(result[p] == r.prefix for r in records for p in P(r))))


@contract("api._get_reverse_prefix_map", props=["C04", "C01"], returns="dict[str,str]")
def c_get_reverse_prefix_map(records: list[Record]):
    pure()
    ensures(all(any(u in U(r) for r in records) for u in result))
    ensures(all(u in result for r in records for u in U(r)))
    ensures(implies(not clashU(records), all(result[u] == r.prefix for r in records for u in U(r))))


@contract("api._get_pattern_map", props=["C04"], returns="dict[str,str]")
def c_get_pattern_map(records: list[Record]):
    pure()
    ensures(all(any(r.prefix == p and r.pattern for r in records) for p in result))
    ensures(all(r.prefix in result for r in records if r.pattern))
    ensures(implies(not clashP(records), all(result[r.prefix] == r.pattern for r in records if r.pattern)))


@contract("api.Converter.__init__", props=["C04", "C01"], returns="None")
def c_converter_init(self: Converter, records: list[Record], delimiter: str, strict: bool):
    requires(all(RecInv(r) for r in records))
    raises(DuplicateURIPrefixes, when=strict and clashU(records))
    raises(DuplicatePrefixes, when=strict and not clashU(records) and clashP(records))
    modifies(self)
    ensures(self.delimiter == delimiter)
    ensures(same_members(self.records, records) and sorted_by_prefix(self.records))
    ensures(all(rec_state(r) == old([rec_state(x) for x in records])[i] for i, r in enumerate(records)))
    ensures(implies(strict and delimiter != "", WF(self)))
    ensures(implies(strict, Uniq(self) and Indexed(self)))


@contract("api.Converter.bimap", props=["C04"], returns="dict[str,str]")
def c_bimap(self: Converter):
    requires(WF(self))
    pure()
    ensures(all(any(r.prefix == p for r in self.records) for p in result))
    ensures(all(r.prefix in result and result[r.prefix] == r.uri_prefix for r in self.records))


@contract("api.Converter.reverse_bimap", props=["C04"], returns="dict[str,str]")
def c_reverse_bimap(self: Converter):
    requires(WF(self))
    pure()
    ensures(all(any(r.uri_prefix == u for r in self.records) for u in result))
    ensures(all(r.uri_prefix in result and result[r.uri_prefix] == r.prefix for r in self.records))


@lemma("C04.bimaps_inverse", props=["C04"])
def l_c04_bimaps(conv: Converter, p: str, u: str):
    requires(WF(conv))
    b = conv.bimap
    rb = conv.reverse_bimap
    if p in b:
        assert b[p] in rb and rb[b[p]] == p
    if u in rb:
        assert rb[u] in b and b[rb[u]] == u


@contract("api.Record.prefix_not_in_synonyms", props=["C04"], returns="list[str]")
def c_prefix_not_in_synonyms(v: list[str], values: dict[str, str]):
    """`values` stands for values.data, the fields validated before this one (prefix and uri_prefix are declared first).
    The constructor model of the prover takes its rejection condition from this contract."""
    requires("prefix" in values)
    pure()
    raises(ValueError, when=values["prefix"] in v)
    ensures(result == v)


@contract("api.Record.uri_prefix_not_in_synonyms", props=["C04"], returns="list[str]")
def c_uri_prefix_not_in_synonyms(v: list[str], values: dict[str, str]):
    requires("uri_prefix" in values)
    pure()
    raises(ValueError, when=values["uri_prefix"] in v)
    ensures(result == v)


@lemma("C04.record_validators", props=["C04"], bounded_only="pydantic runs the field validators; wiring is third-party")
def l_c04_validators(p: str, u: str, ps: list, us: list):
    """A record can never list its own canonical prefix / URI prefix among its synonyms."""
    bad = p in ps or u in us
    # ... whichever way the record enters a converter: as a dict through the extended-prefix-map loader,
    for loader_ in (Converter.from_extended_prefix_map, lambda recs: Converter.from_extended_prefix_map(recs, strict=False)):
        try:
            c = loader_([dict(prefix=p, uri_prefix=u, prefix_synonyms=list(ps), uri_prefix_synonyms=list(us))])
            loaded = True
        except ValueError:
            loaded = False
        assert loaded == (not bad)
        if loaded:
            assert all(RecInv(r) for r in c.records)
    # ... or constructed directly
    try:
        r = Record(prefix=p, uri_prefix=u, prefix_synonyms=ps, uri_prefix_synonyms=us)
    except ValueError:
        assert bad
        return
    assert not bad and RecInv(r)


@lemma("C04.strict_iff", props=["C04"], bounded_only="drives constructors and loaders over record collections; the iff for __init__ is the contract above")
def l_c04_strict_iff(specs: list, delimiter: str):
    """Strict construction succeeds iff no name is claimed by two records — directly and through every loader."""
    recs = [Record(prefix=p, uri_prefix=u, prefix_synonyms=list(ps), uri_prefix_synonyms=list(us)) for p, u, ps, us in specs]
    cu, cp = clashU(recs), clashP(recs)
    try:
        c = Converter(recs, delimiter=delimiter)
    except DuplicateURIPrefixes as e:
        assert cu
        assert e.duplicates and all(d.prefix in U(d.record_1) and d.prefix in U(d.record_2) for d in e.duplicates)
        c = None
    except DuplicatePrefixes as e:
        assert cp and not cu
        assert e.duplicates and all(d.prefix in P(d.record_1) and d.prefix in P(d.record_2) for d in e.duplicates)
        c = None
    else:
        assert not cu and not cp
        assert WF(c) or delimiter == ""
    # the same verdict through the extended-prefix-map loader (dict form)
    dicts = [dict(prefix=p, uri_prefix=u, prefix_synonyms=list(ps), uri_prefix_synonyms=list(us)) for p, u, ps, us in specs]
    try:
        c2 = Converter.from_extended_prefix_map(dicts, delimiter=delimiter)
        ok2 = True
    except (DuplicateURIPrefixes, DuplicatePrefixes):
        ok2 = False
    assert ok2 == (c is not None)
    # priority-map loader when the records have no CURIE synonyms and distinct canonical prefixes
    if all(not ps for _, _, ps, _ in specs) and len({p for p, _, _, _ in specs}) == len(specs):
        pm = {p: [u, *us] for p, u, _, us in specs}
        try:
            Converter.from_priority_prefix_map(pm, delimiter=delimiter)
            ok3 = True
        except (DuplicateURIPrefixes, DuplicatePrefixes):
            ok3 = False
        assert ok3 == (c is not None)


# ---- C05: incremental mutation ----------------------------------------------------------------
@contract("api._eq", props=["C05", "C09"])
def c_eq(a: str, b: str, case_sensitive: bool):
    pure()
    ensures(result == eqcs(a, b, case_sensitive))


@contract("api._in", props=["C05", "C09"])
def c_in(a: str, bs: list[str], case_sensitive: bool):
    pure()
    ensures(result == any(eqcs(a, b, case_sensitive) for b in bs))


def cmatch_upto(x, r, cs, n):
    """CURIE-side match of x against r using x.prefix and the first n synonyms of x."""
    return (eqcs(x.prefix, r.prefix, cs) or any(eqcs(x.prefix, b, cs) for b in r.prefix_synonyms)
            or any(eqcs(s, r.prefix, cs) or any(eqcs(s, b, cs) for b in r.prefix_synonyms) for s in x.prefix_synonyms[:n]))


def umatch_upto(x, r, cs, n):
    return (eqcs(x.uri_prefix, r.uri_prefix, cs) or any(eqcs(x.uri_prefix, b, cs) for b in r.uri_prefix_synonyms)
            or any(eqcs(s, r.uri_prefix, cs) or any(eqcs(s, b, cs) for b in r.uri_prefix_synonyms) for s in x.uri_prefix_synonyms[:n]))


def matches2(x, r, cs):
    """matches(), phrased like the scan in _match_record (same meaning as `matches`)."""
    return cmatch_upto(x, r, cs, len(x.prefix_synonyms)) or umatch_upto(x, r, cs, len(x.uri_prefix_synonyms))


@contract("api.Converter._match_record", props=["C05", "C09"], returns="dict[RecordKey,list[str]]")
def c_match_record(self: Converter, external: Record, case_sensitive: bool):
    pure()
    ensures(all(any(r._key == k and matches2(external, r, case_sensitive) for r in self.records) for k in result))
    ensures(all(r._key in result for r in self.records if matches2(external, r, case_sensitive)))
    ensures(all(any(r._key == k and matches(external, r, case_sensitive) for r in self.records) for k in result), native=True)
    ensures(all(r._key in result for r in self.records if matches(external, r, case_sensitive)), native=True)


@invariant("api.Converter._match_record", loop=0)
def inv_match0(self, external, case_sensitive, rv, _i, _xs):
    return (all(any(r._key == k and matches2(external, r, case_sensitive) for r in _xs[:_i]) for k in rv)
            and all(r._key in rv for r in _xs[:_i] if matches2(external, r, case_sensitive)))


@invariant("api.Converter._match_record", loop=1)
def inv_match1(self, external, case_sensitive, rv, record, _i, _xs, _outer_i, _outer_xs):
    return (all(any(r._key == k and matches2(external, r, case_sensitive) for r in _outer_xs[:_outer_i])
                or (k == record._key and cmatch_upto(external, record, case_sensitive, _i)) for k in rv)
            and all(r._key in rv for r in _outer_xs[:_outer_i] if matches2(external, r, case_sensitive))
            and (not cmatch_upto(external, record, case_sensitive, _i) or record._key in rv))


@invariant("api.Converter._match_record", loop=2)
def inv_match2(self, external, case_sensitive, rv, record, _i, _xs, _outer_i, _outer_xs):
    return (all(any(r._key == k and matches2(external, r, case_sensitive) for r in _outer_xs[:_outer_i])
                or (k == record._key and (cmatch_upto(external, record, case_sensitive, len(external.prefix_synonyms))
                                          or umatch_upto(external, record, case_sensitive, _i))) for k in rv)
            and all(r._key in rv for r in _outer_xs[:_outer_i] if matches2(external, r, case_sensitive))
            and (not (cmatch_upto(external, record, case_sensitive, len(external.prefix_synonyms))
                      or umatch_upto(external, record, case_sensitive, _i)) or record._key in rv))


@contract("api.Converter._merge", props=["C05", "C09"], returns="None")
def c_merge(record: Record, into: Record):
    requires(RecInv(into) and record is not into)
    modifies(into.prefix_synonyms, into.uri_prefix_synonyms)
    ensures(into.prefix == old(into.prefix) and into.uri_prefix == old(into.uri_prefix) and into.pattern == old(into.pattern))
    ensures(P(into) <= old(P(into) | P(record)))
    ensures(old(P(into)) <= P(into))
    ensures(old(P(record)) <= P(into))
    ensures(U(into) <= old(U(into) | U(record)))
    ensures(old(U(into)) <= U(into))
    ensures(old(U(record)) <= U(into))
    ensures(RecInv(into))
    ensures(rec_state(record) == old(rec_state(record)), native=True)


@invariant("api.Converter._merge", loop=0)
def inv_merge0(record, into, _i, _xs, _pre):
    return (all(p in P(into) for p in _xs[:_i]) and all(p in _pre(P(into)) or p in _xs[:_i] for p in P(into))
            and all(p in P(into) for p in _pre(P(into))) and into.prefix not in into.prefix_synonyms)


@invariant("api.Converter._merge", loop=1)
def inv_merge1(record, into, _i, _xs, _pre):
    return (all(u in U(into) for u in _xs[:_i]) and all(u in _pre(U(into)) or u in _xs[:_i] for u in U(into))
            and all(u in U(into) for u in _pre(U(into))) and into.uri_prefix not in into.uri_prefix_synonyms)


@contract("api.Converter._index", props=["C05", "C01"], returns="None")
def c_index(self: Converter, record: Record):
    modifies(self.prefix_map, self.synonym_to_prefix, self.reverse_prefix_map, self.trie, self.pattern_map)
    # every name of the record is indexed under the record's canonical values
    ensures(all(p in self.prefix_map and self.prefix_map[p] == record.uri_prefix
                and p in self.synonym_to_prefix and self.synonym_to_prefix[p] == record.prefix for p in P(record)))
    ensures(all(u in self.reverse_prefix_map and self.reverse_prefix_map[u] == record.prefix
                and u in self.trie and self.trie[u] == record.prefix for u in U(record)))
    # all other entries are exactly the old ones
    ensures(all(p in P(record) or (p in old(self.prefix_map) and old(self.prefix_map)[p] == self.prefix_map[p]) for p in self.prefix_map))
    ensures(all(p in self.prefix_map for p in old(self.prefix_map)))
    ensures(all(p in P(record) or (p in old(self.synonym_to_prefix) and old(self.synonym_to_prefix)[p] == self.synonym_to_prefix[p]) for p in self.synonym_to_prefix))
    ensures(all(p in self.synonym_to_prefix for p in old(self.synonym_to_prefix)))
    ensures(all(u in U(record) or (u in old(self.reverse_prefix_map) and old(self.reverse_prefix_map)[u] == self.reverse_prefix_map[u]) for u in self.reverse_prefix_map))
    ensures(all(u in self.reverse_prefix_map for u in old(self.reverse_prefix_map)))
    ensures(all(u in U(record) or (u in old(self.trie) and old(self.trie)[u] == self.trie[u]) for u in self.trie))
    ensures(all(u in self.trie for u in old(self.trie)))
    # pattern map: old entries kept, a new entry only for this record's canonical prefix
    ensures(all(k in self.pattern_map and self.pattern_map[k] == old(self.pattern_map)[k] for k in old(self.pattern_map)))
    ensures(all(k in old(self.pattern_map) or (k == record.prefix and self.pattern_map[k] == record.pattern) for k in self.pattern_map))
    ensures(implies(bool(record.pattern), record.prefix in self.pattern_map))
    ensures(implies(not record.pattern, all(k in old(self.pattern_map) for k in self.pattern_map)))


@invariant("api.Converter._index", loop=0)
def inv_index0(self, record, _i, _xs, _pre):
    return (all(p in self.prefix_map and self.prefix_map[p] == record.uri_prefix
                and p in self.synonym_to_prefix and self.synonym_to_prefix[p] == record.prefix for p in _xs[:_i])
            and record.prefix in self.prefix_map and self.prefix_map[record.prefix] == record.uri_prefix
            and record.prefix in self.synonym_to_prefix and self.synonym_to_prefix[record.prefix] == record.prefix
            and all(p in P(record) or (p in _pre(self.prefix_map) and _pre(self.prefix_map)[p] == self.prefix_map[p]) for p in self.prefix_map)
            and all(p in self.prefix_map for p in _pre(self.prefix_map))
            and all(p in P(record) or (p in _pre(self.synonym_to_prefix) and _pre(self.synonym_to_prefix)[p] == self.synonym_to_prefix[p]) for p in self.synonym_to_prefix)
            and all(p in self.synonym_to_prefix for p in _pre(self.synonym_to_prefix)))


@invariant("api.Converter._index", loop=1)
def inv_index1(self, record, _i, _xs, _pre):
    return (all(u in self.reverse_prefix_map and self.reverse_prefix_map[u] == record.prefix
                and u in self.trie and self.trie[u] == record.prefix for u in _xs[:_i])
            and record.uri_prefix in self.reverse_prefix_map and self.reverse_prefix_map[record.uri_prefix] == record.prefix
            and record.uri_prefix in self.trie and self.trie[record.uri_prefix] == record.prefix
            and all(u in U(record) or (u in _pre(self.reverse_prefix_map) and _pre(self.reverse_prefix_map)[u] == self.reverse_prefix_map[u]) for u in self.reverse_prefix_map)
            and all(u in self.reverse_prefix_map for u in _pre(self.reverse_prefix_map))
            and all(u in U(record) or (u in _pre(self.trie) and _pre(self.trie)[u] == self.trie[u]) for u in self.trie)
            and all(u in self.trie for u in _pre(self.trie)))


@contract("api.Converter.add_record", props=["C05", "C09", "C01"], returns="None")
def c_add_record(self: Converter, record: Record, case_sensitive: bool, merge: bool):
    requires(WF(self) and RecInv(record) and all(r is not record for r in self.records))
    none = not any(matches2(record, r, case_sensitive) for r in self.records)
    several = any(matches2(record, a, case_sensitive) and matches2(record, b, case_sensitive)
                  for i, a in enumerate(self.records) for j, b in enumerate(self.records) if i != j)
    m = next((r for r in self.records if matches2(record, r, case_sensitive)), None)
    recs0 = list(self.records)
    oldP = [P(r) for r in self.records]
    oldU = [U(r) for r in self.records]
    m_prefix = m.prefix if m is not None else None
    m_uri = m.uri_prefix if m is not None else None
    m_pattern = m.pattern if m is not None else None
    m_P = (P(m) | P(record)) if m is not None else None
    m_U = (U(m) | U(record)) if m is not None else None
    raises(ValueError, when=several or (not none and not merge), unchanged=True)
    modifies(self, *self.records)
    ensures(WF(self))
    ensures(self.delimiter == old(self.delimiter))
    # no match: the record is appended, nothing else changes
    ensures(implies(none, len(self.records) == len(recs0) + 1 and self.records[-1] is record
                    and all(self.records[i] is recs0[i] for i in range(len(recs0)))))
    ensures(all(self.records[i] is m or rec_state(self.records[i]) == old([rec_state(r) for r in self.records])[i]
                for i in range(old(len(self.records)))), native=True)
    # one match: merged into it; it keeps its canonical prefix, URI prefix and pattern, gains the new names as synonyms
    ensures(implies(not none, len(self.records) == len(recs0)
                    and all(self.records[i] is recs0[i] for i in range(len(self.records)))
                    and m.prefix == m_prefix and m.uri_prefix == m_uri and m.pattern == m_pattern
                    and P(m) == m_P and U(m) == m_U))
    ensures(all(self.records[i] is m or (self.records[i].prefix == old([r.prefix for r in self.records])[i]
                                         and self.records[i].uri_prefix == old([r.uri_prefix for r in self.records])[i]
                                         and self.records[i].pattern == old([r.pattern for r in self.records])[i]
                                         and P(self.records[i]) == old([P(r) for r in self.records])[i]
                                         and U(self.records[i]) == old([U(r) for r in self.records])[i])
                for i in range(old(len(self.records)))))
    ensures(all(known(self, p) for p in P(record)) and all(uknown(self, u) for u in U(record)))
    ensures(record.prefix == old(record.prefix) and record.uri_prefix == old(record.uri_prefix))
    # consequences used by callers (chain): names only grow, nothing is invented, grouping, existing answers are kept
    ensures(all(known(self, p) for k in range(len(recs0)) for p in oldP[k]))
    ensures(all(uknown(self, u) for k in range(len(recs0)) for u in oldU[k]))
    ensures(all(any(p in oldP[k] for k in range(len(recs0))) or p in P(record) for q in self.records for p in P(q)))
    ensures(all(any(u in oldU[k] for k in range(len(recs0))) or u in U(record) for q in self.records for u in U(q)))
    ensures(all(oldP[k] <= P(self.records[k]) and oldU[k] <= U(self.records[k]) for k in range(len(recs0))))
    ensures(any(P(record) <= P(q) and U(record) <= U(q) for q in self.records))
    ensures(all(p in self.prefix_map and self.prefix_map[p] == old(self.prefix_map)[p]
                and p in self.synonym_to_prefix and self.synonym_to_prefix[p] == old(self.synonym_to_prefix)[p] for p in old(self.prefix_map)))
    ensures(implies(not case_sensitive and old(no_casefold_clash(self)), no_casefold_clash(self)))
    ensures(fresh_equiv(self), native=True)
    ensures(rec_state(record) == old(rec_state(record)), native=True)


@lemma("C05.matches_phrasing", props=["C05"])
def l_c05_matches(x: Record, r: Record, cs: bool):
    """The scan order used by _match_record decides the same relation as the set-level definition."""
    assert matches(x, r, cs) == matches2(x, r, cs)


@contract("api.Converter.add_prefix", props=["C05"], returns="None")
def c_add_prefix(self: Converter, prefix: str, uri_prefix: str, prefix_synonyms: "list[str]|None", uri_prefix_synonyms: "list[str]|None",
                 case_sensitive: bool, merge: bool):
    requires(WF(self))
    ps = prefix_synonyms or []
    us = uri_prefix_synonyms or []
    bad = prefix in ps or uri_prefix in us
    raises(ValueError, when=bad, unchanged=True)        # a self-clashing argument is rejected before any mutation
    may_raise(ValueError, unchanged=True)               # ... as is a record that add_record rejects
    modifies(self, *self.records)
    ensures(WF(self))
    ensures(known(self, prefix) and all(known(self, p) for p in ps))
    ensures(uknown(self, uri_prefix) and all(uknown(self, u) for u in us))
    ensures(self.delimiter == old(self.delimiter))
    # exactly add_record(Record(...)): decided natively (bounded) against the set-level matching relation
    ensures(fresh_equiv(self), native=True)
    ensures(len(self.records) - old(len(self.records)) == (0 if any(
        any(eqcs(a, b, case_sensitive) for a in [prefix, *ps] for b in P(r)) or any(eqcs(a, b, case_sensitive) for a in [uri_prefix, *us] for b in U(r))
        for r in old([r.model_copy(deep=True) for r in self.records])) else 1), native=True)


@lemma("C05.add_record_then_expand", props=["C05"])
def l_c05_add_then_expand(conv: Converter, record: Record, p: str, x: str):
    """Over the contracts of add_record and expand: after a record that matches nothing is added, every prefix known
    before expands exactly as before and the new record's names expand with its URI prefix (what a fresh converter does)."""
    requires(WF(conv) and RecInv(record) and all(r is not record for r in conv.records))
    requires(not any(matches2(record, r, True) for r in conv.records))
    d = conv.delimiter
    requires(first_occ(p, d))
    was_known = known(conv, p)
    before = conv.expand(p + d + x)
    conv.add_record(record)
    after = conv.expand(p + d + x)
    if was_known:
        assert after == before and after is not None
    if p in P(record):
        assert after == record.uri_prefix + x


@lemma("C05.history_equals_fresh", props=["C05", "C01", "C02"],
       bounded_only="histories: the unbounded argument is the representation invariant WF preserved by add_record (contract above); this drives interleaved queries and mutations to expose state outside WF (caches)")
def l_c05_history(conv: Converter, ops: list, probes: list):
    requires(WF(conv))
    for op in ops:
        # queries first (fills any cache), then the mutation, then compare with a fresh converter
        for kind, arg in probes:
            _probe(conv, kind, arg)
        before_state = conv_state(conv)
        try:
            if op[0] == "add_record":
                conv.add_record(Record(prefix=op[1][0], uri_prefix=op[1][1], prefix_synonyms=list(op[1][2]), uri_prefix_synonyms=list(op[1][3]), pattern=op[1][4]),
                                case_sensitive=op[2], merge=op[3])
            else:
                conv.add_prefix(op[1][0], op[1][1], list(op[1][2]), list(op[1][3]), case_sensitive=op[2], merge=op[3])
        except ValueError:
            assert conv_state(conv) == before_state
        assert WF(conv)
        fresh = Converter([r.model_copy(deep=True) for r in conv.records], delimiter=conv.delimiter)
        for kind, arg in probes:
            assert _probe(conv, kind, arg) == _probe(fresh, kind, arg)


def _probe(c, kind, arg):
    if kind == "compress":
        return c.compress(arg)
    if kind == "parse_uri":
        return c.parse_uri(arg, return_none=True)
    if kind == "expand":
        return c.expand(arg)
    if kind == "expand_all":
        return c.expand_all(arg)
    if kind == "std_prefix":
        return c.standardize_prefix(arg)
    if kind == "std_uri":
        return c.standardize_uri(arg)
    if kind == "expand_pair":
        return c.expand_pair(arg, "1")
    if kind == "expand_pair_all":
        return c.expand_pair_all(arg, "1")
    if kind == "get_record":
        r = c.get_record(arg)
        return None if r is None else rec_state(r)
    if kind == "is_curie":
        return c.is_curie(arg)
    raise ValueError(kind)


# ---- C09 / C10: chain and get_subconverter -----------------------------------------------------
def no_casefold_clash(c):
    return all(not any(a.casefold() == b.casefold() for a in P(x) for b in P(y))
               for i, x in enumerate(c.records) for j, y in enumerate(c.records) if i < j)


def bridging(converters, cs):
    """Some record, at the moment it is added, matches two records of the accumulated result (decided natively by simulation)."""
    rv = Converter([])
    for c in converters:
        for r in c.records:
            r = r.model_copy(deep=True)
            if len([x for x in rv.records if matches(r, x, cs)]) > 1:
                return True
            rv.add_record(r, case_sensitive=cs, merge=True)
    return False


def names_from(cs, p):
    """p is a CURIE prefix or synonym of some record of some converter in cs."""
    return any(p in P(r) for c in cs for r in c.records)


def unames_from(cs, u):
    return any(u in U(r) for c in cs for r in c.records)


@contract("api.chain", props=["C09", "C10"], returns="Converter",
          partial="~195 of 207 obligations discharge; the rest (loop-1 invariant preservation through add_record's postconditions) exceed the solvers' budget in this large context")
def c_chain(converters: list[Converter], case_sensitive: bool):
    requires(all(WF(c) for c in converters))
    requires(all(c1 is not c2 and all(r1 is not r2 for r1 in c1.records for r2 in c2.records)
                 for i, c1 in enumerate(converters) for j, c2 in enumerate(converters) if i < j))
    raises(ValueError, when=len(converters) == 0)
    raises(ValueError, when=len(converters) == 0 or bridging(converters, case_sensitive), native=True)
    ensures(WF(result))
    ensures(fresh_equiv(result), native=True)
    # nothing lost, nothing invented
    ensures(all(known(result, p) for c in converters for r in c.records for p in P(r)))
    ensures(all(uknown(result, u) for c in converters for r in c.records for u in U(r)))
    ensures(all(names_from(converters, p) for q in result.records for p in P(q)))
    ensures(all(unames_from(converters, u) for q in result.records for u in U(q)))
    # whatever shared a record in an input shares a record in the result
    ensures(all(any(P(r) <= P(q) and U(r) <= U(q) for q in result.records) for c in converters for r in c.records))
    # priority: case-sensitive mode answers every prefix known to the first converter exactly as it does
    ensures(implies(case_sensitive, all(result.prefix_map[p] == converters[0].prefix_map[p]
                                        and result.synonym_to_prefix[p] == converters[0].synonym_to_prefix[p]
                                        for r in converters[0].records for p in P(r))))
    ensures(implies(not case_sensitive, no_casefold_clash(result)))
    # C10: inputs unchanged (frame: no modifies clause) and the result shares no object with them
    ensures(_fresh(result) and all(_fresh(q) for q in result.records), symbolic=True)
    ensures(all(conv_state(c) == s for c, s in zip(converters, old([conv_state(c) for c in converters]))), native=True)
    ensures(all(q is not r for q in result.records for c in converters for r in c.records), native=True)


def chain_inv_common(rv, done, cur_done, case_sensitive):
    """Invariant of both loops of chain(): `done` = converters fully processed, `cur_done` = processed records of
    the current one. Everything about the inputs is read in the ENTRY heap (_pre): they never change (_frame)."""
    return (WF(rv) and _frame() and _fresh(rv) and _alloc(rv) and all(_fresh(q) and _alloc(q) for q in rv.records)
            and all(known(rv, p) for c in done for r in _pre(c.records) for p in _pre(P(r)))
            and all(uknown(rv, u) for c in done for r in _pre(c.records) for u in _pre(U(r)))
            and all(known(rv, p) for r in cur_done for p in _pre(P(r)))
            and all(uknown(rv, u) for r in cur_done for u in _pre(U(r)))
            and all(any(p in _pre(P(r)) for c in done for r in _pre(c.records)) or any(p in _pre(P(r)) for r in cur_done) for q in rv.records for p in P(q))
            and all(any(u in _pre(U(r)) for c in done for r in _pre(c.records)) or any(u in _pre(U(r)) for r in cur_done) for q in rv.records for u in U(q))
            and all(any(_pre(P(r)) <= P(q) and _pre(U(r)) <= U(q) for q in rv.records) for c in done for r in _pre(c.records))
            and all(any(_pre(P(r)) <= P(q) and _pre(U(r)) <= U(q) for q in rv.records) for r in cur_done)
            and (case_sensitive or no_casefold_clash(rv)))


@invariant("api.chain", loop=0)
def inv_chain0(converters, case_sensitive, rv, _i, _xs, _pre):
    return (chain_inv_common(rv, _xs[:_i], [], case_sensitive)
            and (not case_sensitive or _i == 0 or all(rv.prefix_map[p] == _pre(_xs[0].prefix_map)[p] and rv.synonym_to_prefix[p] == _pre(_xs[0].synonym_to_prefix)[p]
                                                      for r in _pre(_xs[0].records) for p in _pre(P(r))))
            and (_i > 0 or len(rv.records) == 0))


@invariant("api.chain", loop=1)
def inv_chain1(converters, case_sensitive, rv, converter, _i, _xs, _outer_i, _outer_xs, _pre):
    return (_xs == _pre(converter.records)
            and chain_inv_common(rv, _outer_xs[:_outer_i], _xs[:_i], case_sensitive)
            and (not case_sensitive or _outer_i == 0 or all(rv.prefix_map[p] == _pre(_outer_xs[0].prefix_map)[p]
                                                            and rv.synonym_to_prefix[p] == _pre(_outer_xs[0].synonym_to_prefix)[p]
                                                            for r in _pre(_outer_xs[0].records) for p in _pre(P(r))))
            # while the first converter is being copied (case-sensitive), the result mirrors its processed records
            and (not case_sensitive or _outer_i > 0 or (len(rv.records) == _i and all(
                P(rv.records[k]) == _pre(P(_xs[k])) and U(rv.records[k]) == _pre(U(_xs[k]))
                and rv.records[k].prefix == _pre(_xs[k].prefix) and rv.records[k].uri_prefix == _pre(_xs[k].uri_prefix) for k in range(_i)))))


@lemma("C09.chain_single_is_identity", props=["C09"],
       bounded_only="needs 'chain([c]) never raises', which the prover-side contract of chain leaves open (may_raise: bridging is decided natively by simulation)")
def l_c09_single(conv: Converter, s: str, p: str):
    requires(WF(conv))
    c2 = chain([conv])
    assert same_names(conv, c2) or conv.delimiter != c2.delimiter
    assert sub_names(conv, c2) and sub_names(c2, conv)


@contract("api.Converter.get_subconverter", props=["C09", "C10"], returns="Converter")
def c_get_subconverter(self: Converter, prefixes: list[str]):
    requires(WF(self))
    ensures(WF(result))
    ensures(fresh_equiv(result), native=True)
    ensures(result.delimiter == self.delimiter)
    ensures([rec_state(q) for q in result.records] == [rec_state(r) for r in self.records if any(p in prefixes for p in P(r))], native=True)
    # exactly the records having a canonical prefix or synonym in the set: their names are known, the others' are not
    ensures(all(known(result, p) == any(x in prefixes for x in P(r)) for r in self.records for p in P(r)))
    ensures(all(known(self, p) for q in result.records for p in P(q)))
    ensures(all(uknown(result, u) == any(x in prefixes for x in P(r)) for r in self.records for u in U(r)))
    # answers as the parent on the kept records
    ensures(all(result.prefix_map[p] == self.prefix_map[p] and result.synonym_to_prefix[p] == self.synonym_to_prefix[p]
                for q in result.records for p in P(q)))
    ensures(all(result.reverse_prefix_map[u] == self.reverse_prefix_map[u] for q in result.records for u in U(q)))
    # C10: frame (no modifies clause) and freshness of the result
    ensures(_fresh(result) and all(_fresh(q) for q in result.records), symbolic=True)
    ensures(conv_state(self) == old(conv_state(self)), native=True)
    ensures(all(q is not r for q in result.records for r in self.records), native=True)


@lemma("C09.subconverter_answers_as_parent", props=["C09"])
def l_c09_sub_answers(conv: Converter, prefixes: list[str], p: str, x: str):
    """Over the contracts of get_subconverter and expand: on the records having a name in `prefixes` the subconverter
    expands as the parent does, on every other prefix it does not answer at all."""
    requires(WF(conv) and first_occ(p, conv.delimiter))
    sub = conv.get_subconverter(prefixes)
    assert sub.delimiter == conv.delimiter
    e = conv.expand(p + conv.delimiter + x)
    s = sub.expand(p + conv.delimiter + x)
    if known(conv, p) and any(q in prefixes for q in P(owner(conv, p))):
        assert e is not None and s == e
    else:
        assert s is None


@lemma("C10.derived_mutation_does_not_leak", props=["C10"],
       bounded_only="two-step history (derive, then mutate the derived converter); the one-call frame conditions are in the contracts of the derivations")
def l_c10_leak(conv: Converter, prefixes: list, extra: tuple):
    requires(WF(conv))
    before_state = conv_state(conv)
    derived = [conv.get_subconverter(prefixes), chain([conv])]
    for d in derived:
        try:
            d.add_prefix(extra[0], extra[1], list(extra[2]), list(extra[3]), merge=True)
        except ValueError:
            pass
        assert conv_state(conv) == before_state


# ---- loop invariants for the index builders ------------------------------------------------------
@invariant("api._get_prefix_map", loop=0)
def inv_pm0(records, rv, _i, _xs):
    return (all(any(p in P(r) for r in _xs[:_i]) for p in rv)
            and all(p in rv for r in _xs[:_i] for p in P(r))
            and (clashP(records) or all(rv[p] == r.uri_prefix for r in _xs[:_i] for p in P(r))))


@invariant("api._get_prefix_map", loop=1)
def inv_pm1(records, record, rv, _i, _xs, _outer_i, _outer_xs):
    return (all(any(p in P(r) for r in _outer_xs[:_outer_i]) or p == record.prefix or p in _xs[:_i] for p in rv)
            and all(p in rv for r in _outer_xs[:_outer_i] for p in P(r))
            and record.prefix in rv and all(p in rv for p in _xs[:_i])
            and (clashP(records) or (all(rv[p] == r.uri_prefix for r in _outer_xs[:_outer_i] for p in P(r))
                                     and rv[record.prefix] == record.uri_prefix
                                     and all(rv[p] == record.uri_prefix for p in _xs[:_i]))))


@invariant("api._get_prefix_synmap", loop=0)
def inv_sm0(records, rv, _i, _xs):
    return (all(any(p in P(r) for r in _xs[:_i]) for p in rv)
            and all(p in rv for r in _xs[:_i] for p in P(r))
            and (clashP(records) or all(rv[p] == r.prefix for r in _xs[:_i] for p in P(r))))


@invariant("api._get_prefix_synmap", loop=1)
def inv_sm1(records, record, rv, _i, _xs, _outer_i, _outer_xs):
    return (all(any(p in P(r) for r in _outer_xs[:_outer_i]) or p == record.prefix or p in _xs[:_i] for p in rv)
            and all(p in rv for r in _outer_xs[:_outer_i] for p in P(r))
            and record.prefix in rv and all(p in rv for p in _xs[:_i])
            and (clashP(records) or (all(rv[p] == r.prefix for r in _outer_xs[:_outer_i] for p in P(r))
                                     and rv[record.prefix] == record.prefix
                                     and all(rv[p] == record.prefix for p in _xs[:_i]))))


@invariant("api._get_reverse_prefix_map", loop=0)
def inv_rm0(records, rv, _i, _xs):
    return (all(any(u in U(r) for r in _xs[:_i]) for u in rv)
            and all(u in rv for r in _xs[:_i] for u in U(r))
            and (clashU(records) or all(rv[u] == r.prefix for r in _xs[:_i] for u in U(r))))


@invariant("api._get_reverse_prefix_map", loop=1)
def inv_rm1(records, record, rv, _i, _xs, _outer_i, _outer_xs):
    return (all(any(u in U(r) for r in _outer_xs[:_outer_i]) or u == record.uri_prefix or u in _xs[:_i] for u in rv)
            and all(u in rv for r in _outer_xs[:_outer_i] for u in U(r))
            and record.uri_prefix in rv and all(u in rv for u in _xs[:_i])
            and (clashU(records) or (all(rv[u] == r.prefix for r in _outer_xs[:_outer_i] for u in U(r))
                                     and rv[record.uri_prefix] == record.prefix
                                     and all(rv[u] == record.prefix for u in _xs[:_i]))))
