"""Contracts for curies.discovery (C19, C10) and curies.w3c (C20)."""
import re as _re

from curies.api import Converter
from curies.discovery import discover
from curies.w3c import is_w3c_curie, is_w3c_prefix

DEFAULT_DELIMS = ("#", "/", "_")


# ---- C19 ---------------------------------------------------------------------------------------
def disc_split(u, ds):
    """(URI prefix, identifier) learned from u: first delimiter in priority order that occurs in u and whose
    right-most split leaves an alphanumeric tail; None if there is none."""
    return next(((u.rsplit(d, 1)[0] + d, u.rsplit(d, 1)[1]) for d in ds if d in u and u.rsplit(d, 1)[1].isalnum()), None)


def github_issue(u):
    return u.startswith("https://github.com") and "issues" in u


def considered_uri(converter, u, ds):
    """u is learned from: not recognised by the supplied converter, not a GitHub issue link, and splittable."""
    return not (converter is not None and uri_hit(converter, u)) and not github_issue(u) and disc_split(u, ds) is not None


@contract("discovery._get_uri_prefix_to_luids", props=["C19", "C10"], returns="dict[str,set[str]]",
          partial="332 of 340 obligations discharge; open: preservation of the outer-loop invariant on the paths that add an identifier (break) — beyond the solvers' budget")
def c_get_uri_prefix_to_luids(converter: "Converter|None", uris: list[str], delimiters: "list[str]|None"):
    requires(converter is None or WF(converter))
    requires(all(d != "" for d in (delimiters or [])))
    pure()
    ds = delimiters or DEFAULT_DELIMS
    # stated over MEMBERSHIP in `uris` only: order and repetition of the input cannot matter
    ensures(all(any(considered_uri(converter, u, ds) and disc_split(u, ds)[0] == k for u in uris) for k in result))
    ensures(all(disc_split(u, ds)[0] in result and disc_split(u, ds)[1] in result[disc_split(u, ds)[0]]
                for u in uris if considered_uri(converter, u, ds)))
    ensures(all(any(considered_uri(converter, u, ds) and disc_split(u, ds)[0] == k and disc_split(u, ds)[1] == luid for u in uris)
                for k in result for luid in result[k]))


def luids_inv(converter, ds, d_, seen):
    """The map built so far is exactly what the contract states for the URIs `seen` (ds: the delimiter list in force)."""
    return (all(any(considered_uri(converter, u, ds) and disc_split(u, ds)[0] == k for u in seen) for k in d_)
            and all(disc_split(u, ds)[0] in d_ and disc_split(u, ds)[1] in d_[disc_split(u, ds)[0]]
                    for u in seen if considered_uri(converter, u, ds))
            and all(any(considered_uri(converter, u, ds) and disc_split(u, ds)[0] == k and disc_split(u, ds)[1] == luid for u in seen)
                    for k in d_ for luid in d_[k]))


@invariant("discovery._get_uri_prefix_to_luids", loop=0)
def inv_luids0(converter, delimiters, uri_prefix_to_luids: dict[str, set[str]], _i, _xs, _pre):
    return (delimiters == (_pre(delimiters) or DEFAULT_DELIMS)
            and luids_inv(converter, _pre(delimiters) or DEFAULT_DELIMS, uri_prefix_to_luids, _xs[:_i]))


@invariant("discovery._get_uri_prefix_to_luids", loop=1)
def inv_luids1(converter, delimiters, uri, uri_prefix_to_luids: dict[str, set[str]], _i, _xs, _outer_i, _outer_xs, _pre):
    return (delimiters == (_pre(delimiters) or DEFAULT_DELIMS) and _xs == (_pre(delimiters) or DEFAULT_DELIMS)
            and luids_inv(converter, _pre(delimiters) or DEFAULT_DELIMS, uri_prefix_to_luids, _outer_xs[:_outer_i])
            # no earlier delimiter (in priority order) splits this URI
            and all(not (d in uri and uri.rsplit(d, 1)[1].isalnum()) for d in (_pre(delimiters) or DEFAULT_DELIMS)[:_i]))


@contract("discovery.discover", props=["C19", "C10"], returns="Converter")
def c_discover(uris: list[str], delimiters: "list[str]|None", cutoff: "int|None", metaprefix: str, converter: "Converter|None"):
    requires(converter is None or WF(converter))
    requires(all(d != "" for d in (delimiters or [])))
    ds = delimiters or DEFAULT_DELIMS
    considered = [u for u in uris if not (converter is not None and converter.is_uri(u)) and disc_split(u, ds) is not None]
    ensures(WF(result) and fresh_equiv(result))
    ensures(all(not r.prefix_synonyms and not r.uri_prefix_synonyms for r in result.records))
    ensures(all(any(r.uri_prefix.endswith(d) for d in ds) for r in result.records))
    # named metaprefix1, metaprefix2, ... in sorted URI-prefix order
    ensures([r.prefix for r in sorted(result.records, key=lambda r: r.uri_prefix)]
            == [metaprefix + str(i + 1) for i in range(len(result.records))])
    # a URI prefix is kept iff at least `cutoff` distinct identifiers were seen for it
    ensures(all((any(r.uri_prefix == disc_split(u, ds)[0] for r in result.records))
                == (cutoff is None or len({disc_split(v, ds)[1] for v in considered if disc_split(v, ds)[0] == disc_split(u, ds)[0]}) >= cutoff)
                for u in considered))
    ensures(all(any(disc_split(u, ds)[0] == r.uri_prefix for u in considered) for r in result.records))
    # with no cutoff every learnable URI compresses under the result and expands back to itself
    ensures(implies(cutoff is None, all(result.compress(u) is not None and result.expand(result.compress(u)) == u for u in considered)))
    # C10: a supplied converter is only read
    ensures(converter is None or conv_state(converter) == old(conv_state(converter) if converter is not None else None))


@lemma("C19.function_of_the_set", props=["C19"], bounded_only="permutation / repetition of the input list: the contract of discover is already stated over membership in `uris` only")
def l_c19_set(uris: list, perm: list, delimiters: list, cutoff: int, conv: Converter):
    a = discover(uris, delimiters=delimiters or None, cutoff=cutoff, converter=conv)
    b = discover(perm, delimiters=delimiters or None, cutoff=cutoff, converter=conv)
    assert [rec_state(r) for r in a.records] == [rec_state(r) for r in b.records]
    if conv is not None:
        c = discover([u for u in uris if not conv.is_uri(u)], delimiters=delimiters or None, cutoff=cutoff)
        assert [rec_state(r) for r in a.records] == [rec_state(r) for r in c.records]


# ---- C20 ---------------------------------------------------------------------------------------
NCNAME_SPEC = _re.compile(r"[A-Za-z_][A-Za-z0-9._\-]*")


def spec_ncname(s):
    """ASCII XML NCName: a letter or '_' followed by letters, digits, '.', '-' or '_'; nothing else."""
    return NCNAME_SPEC.fullmatch(s) is not None


def spec_reference(r):
    """A whitespace-free reference not starting with '//'."""
    return not any(ch.isspace() for ch in r) and not r.startswith("//")


def spec_w3c_curie(s):
    return (
        "[" not in s and "]" not in s
        and s.strip() != ""
        and not any(ch.isspace() for ch in s)
        and ((spec_reference(s)) if ":" not in s
             else ((s.partition(":")[0] == "" or spec_ncname(s.partition(":")[0])) and spec_reference(s.partition(":")[2])))
    )


@contract("w3c.is_w3c_prefix", props=["C20"])
def c_is_w3c_prefix(prefix: str):
    pure()
    ensures(result == spec_ncname(prefix))


@contract("w3c._is_w3c_luid", props=["C20"])
def c_is_w3c_luid(luid: str):
    pure()
    ensures(result == spec_reference(luid))


@contract("w3c.is_w3c_curie", props=["C20"])
def c_is_w3c_curie(curie: str):
    pure()
    ensures(result == spec_w3c_curie(curie))
